(* RenderProofs.v — the report contract on the renderer model, for every message. *)
From Lib Require Import Base Render.
Open Scope list_scope.
Open Scope string_scope.
Local Notation length := List.length.

(* a character that is neither ESC nor a line break *)
Definition safe_char (c : ascii) : bool := negb (Ascii.eqb c esc) && negb (Ascii.eqb c (ascii_of_N 10)).
Fixpoint safe (s : string) : bool := match s with EmptyString => true | String c r => safe_char c && safe r end.

Lemma safe_app a b : safe (a ++ b) = safe a && safe b.
Proof. induction a as [|c r IH]; simpl; [reflexivity|]. now rewrite IH, andb_assoc. Qed.

Lemma safe_no_esc s : safe s = true -> no_esc s = true.
Proof.
  induction s as [|c r IH]; simpl; intros H; [reflexivity|].
  apply andb_true_iff in H as [H1 H2]. unfold safe_char in H1. apply andb_true_iff in H1 as [H1 _].
  now rewrite H1, (IH H2).
Qed.

Lemma digit_safe d : (d < 10)%N -> safe_char (digit_ascii d) = true.
Proof.
  intros H.
  assert (C : (d = 0 \/ d = 1 \/ d = 2 \/ d = 3 \/ d = 4 \/ d = 5 \/ d = 6 \/ d = 7 \/ d = 8 \/ d = 9)%N) by lia.
  repeat (destruct C as [->|C]; [reflexivity|]). subst. reflexivity.
Qed.

Lemma dec_fuel_safe f : forall n acc, safe acc = true -> safe (N_to_dec_fuel f n acc) = true.
Proof.
  induction f as [|f IH]; intros n acc H; simpl; [exact H|].
  assert (Hd : safe (String (digit_ascii (n mod 10)) acc) = true).
  { simpl. rewrite H, digit_safe; [reflexivity|]. apply N.mod_lt. discriminate. }
  destruct (n <? 10)%N; [exact Hd|]. now apply IH.
Qed.

Lemma dec_safe n : safe (N_to_dec n) = true.
Proof. unfold N_to_dec. now apply dec_fuel_safe. Qed.

Lemma append_assoc_str a b c : (a ++ b) ++ c = a ++ (b ++ c).
Proof. induction a as [|x r IH]; simpl; [reflexivity|now rewrite IH]. Qed.

(* ---- splitting at back-ticks and joining again ---- *)
Lemma split_nonempty c s : split_char c s <> [].
Proof. induction s as [|d r IH]; simpl; [discriminate|]. destruct (Ascii.eqb c d); [discriminate|]. destruct (split_char c r); discriminate. Qed.

Lemma join_split c s : concat_str (String c "") (split_char c s) = s.
Proof.
  induction s as [|d r IH]; [reflexivity|]. simpl.
  destruct (Ascii.eqb_spec c d) as [->|N].
  - pose proof (split_nonempty d r). destruct (split_char d r) as [|h t] eqn:E; [congruence|].
    simpl in *. now rewrite IH.
  - pose proof (split_nonempty c r). destruct (split_char c r) as [|h t] eqn:E; [congruence|].
    destruct t; simpl in *; now rewrite <- IH.
Qed.

Lemma split_safe c s : safe s = true -> forallb safe (split_char c s) = true.
Proof.
  induction s as [|d r IH]; simpl; intros H; [reflexivity|].
  apply andb_true_iff in H as [H1 H2]. specialize (IH H2).
  destruct (Ascii.eqb c d); [simpl; exact IH|].
  destruct (split_char c r) as [|h t]; simpl in *; [now rewrite H1|].
  apply andb_true_iff in IH as [I1 I2]. now rewrite H1, I1, I2.
Qed.

(* ---- colour only adds escape sequences ---- *)
Ltac strip1 :=
  first [ rewrite strip_sgr by reflexivity
        | rewrite strip_plain_prefix by (apply safe_no_esc; first [assumption | apply dec_safe | reflexivity]) ].

Lemma strip_color_msg msg t : safe msg = true -> no_esc t = true ->
  strip_ansi (color_msg msg ++ t) = msg ++ strip_ansi t.
Proof.
  intros H Ht. unfold color_msg. pose proof (split_safe backtick msg H) as Hs. pose proof (join_split backtick msg) as Hj.
  destruct (split_char backtick msg) as [|p0 [|a [|b [|c [|p4 [|x r]]]]]];
    try (rewrite strip_plain_prefix by (now apply safe_no_esc); reflexivity).
  simpl in Hs. repeat (apply andb_true_iff in Hs as [? Hs]).
  unfold gray, red, green, reset. rewrite !append_assoc_str.
  repeat (first [ rewrite strip_sgr by reflexivity
                | rewrite strip_plain_prefix by (apply safe_no_esc; first [assumption|reflexivity]) ]).
  rewrite <- Hj. simpl. repeat (rewrite append_assoc_str; simpl). reflexivity.
Qed.

Definition safe_err (e : err) : bool := safe (e_file e) && safe (e_prefix e) && safe (e_msg e).

Lemma strip_empty : strip_ansi "" = "".
Proof. reflexivity. Qed.

Lemma app_empty_r s : s ++ "" = s.
Proof. induction s as [|c r IH]; simpl; [reflexivity|now rewrite IH]. Qed.

(* colour only adds escape sequences: for every message (any number of back-ticks) *)
Theorem color_only_adds_escapes_all : forall e, safe_err e = true -> strip_ansi (color e) = plain e.
Proof.
  intros e H. unfold safe_err in H. apply andb_true_iff in H as [H Hm]. apply andb_true_iff in H as [Hf Hp].
  unfold color, plain, code_txt, blue, yellow, gray, reset.
  rewrite !append_assoc_str.
  assert (Hcode : safe (e_prefix e ++ N_to_dec (e_code e)) = true) by (rewrite safe_app, Hp, dec_safe; reflexivity).
  repeat (first [ rewrite strip_sgr by reflexivity
                | rewrite strip_plain_prefix by (apply safe_no_esc; first [assumption | apply dec_safe | reflexivity]) ]).
  rewrite <- (app_empty_r (color_msg (e_msg e))).
  rewrite strip_color_msg by (auto; reflexivity). rewrite strip_empty, app_empty_r.
  repeat (rewrite ?append_assoc_str; simpl). reflexivity.
Qed.

(* one line per diagnostic, in every format *)
Lemma safe_one_line s : safe s = true -> str_in (ascii_of_N 10) s = false.
Proof.
  induction s as [|c r IH]; intros H; [reflexivity|].
  cbn [safe] in H. apply andb_true_iff in H as [H1 H2]. unfold safe_char in H1. apply andb_true_iff in H1 as [_ H1].
  apply negb_true_iff in H1. cbn [str_in]. rewrite (IH H2), orb_false_r.
  destruct (Ascii.eqb_spec (ascii_of_N 10) c) as [E|E]; [|reflexivity].
  subst c. rewrite Ascii.eqb_refl in H1. discriminate.
Qed.

Theorem plain_one_line_all : forall e, safe_err e = true -> str_in (ascii_of_N 10) (plain e) = false.
Proof.
  intros e H. apply safe_one_line. unfold safe_err in H. apply andb_true_iff in H as [H Hm]. apply andb_true_iff in H as [Hf Hp].
  unfold plain, code_txt. rewrite !safe_app, Hf, Hp, Hm, !dec_safe. reflexivity.
Qed.

Theorem github_one_line_all : forall rel e, safe_err e = true -> safe rel = true ->
  str_in (ascii_of_N 10) (github rel e) = false.
Proof.
  intros rel e H Hr. apply safe_one_line. unfold safe_err in H. apply andb_true_iff in H as [H Hm]. apply andb_true_iff in H as [Hf Hp].
  unfold github, code_txt. cbn [concat_str]. rewrite !safe_app, Hr, Hp, Hm, !dec_safe. reflexivity.
Qed.

Theorem color_one_line_all : forall e, safe_err e = true -> str_in (ascii_of_N 10) (color e) = false.
Proof.
  intros e H. unfold safe_err in H. apply andb_true_iff in H as [H Hm]. apply andb_true_iff in H as [Hf Hp].
  (* line breaks only: escapes are allowed here *)
  assert (nlfree_app : forall a b, str_in (ascii_of_N 10) (a ++ b) = str_in (ascii_of_N 10) a || str_in (ascii_of_N 10) b).
  { induction a as [|c r IH]; simpl; intros b; [reflexivity|]. now rewrite IH, orb_assoc. }
  assert (Hmsg : str_in (ascii_of_N 10) (color_msg (e_msg e)) = false).
  { unfold color_msg. pose proof (split_safe backtick (e_msg e) Hm) as Hs.
    destruct (split_char backtick (e_msg e)) as [|p0 [|a [|b [|c [|p4 [|x r]]]]]]; try (now apply safe_one_line).
    simpl in Hs. repeat (apply andb_true_iff in Hs as [? Hs]).
    rewrite !nlfree_app. rewrite (safe_one_line p0), (safe_one_line a), (safe_one_line b), (safe_one_line c), (safe_one_line p4) by assumption. reflexivity. }
  unfold color, code_txt. rewrite !nlfree_app, Hmsg.
  rewrite (safe_one_line (e_file e)), (safe_one_line (e_prefix e)), !(safe_one_line (N_to_dec _)) by (first [assumption | apply dec_safe]). reflexivity.
Qed.

(* the --explain hint and the exit status *)
Theorem hint_iff_all : forall f rel quiet items,
  format_errors f rel quiet items = concat_str nl (map (render f rel) items) ++ hint
  <-> (quiet = false /\ existsb is_err items = true).
Proof.
  intros f rel quiet items. unfold format_errors.
  destruct quiet, (existsb is_err items); simpl; split; try tauto; try (intros [? ?]; discriminate); intros H.
  all: exfalso; apply (f_equal String.length) in H; rewrite ?str_length_app in H; simpl in H; lia.
Qed.

Theorem exit_iff_all : forall items, exit_status items = 1 <-> items <> [].
Proof. intros [|x r]; simpl; split; congruence. Qed.

(* the three renderings list the same diagnostics in the same order *)
Theorem same_order_all : forall f g rel items,
  List.length (map (render f rel) items) = List.length (map (render g rel) items).
Proof. intros. now rewrite !map_length. Qed.
