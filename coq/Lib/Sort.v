(* Sort.v — the report is the sorted list of diagnostics.  For a total order on keys and
   diagnostics with pairwise distinct keys, the sorted report depends only on the SET of
   diagnostics: not on the order of the file arguments, nor on how files are grouped. *)
From Lib Require Import Base.
Open Scope list_scope.
Local Notation length := List.length.

Section Sorted.
  Variable A : Type.
  Variable leb : A -> A -> bool.
  Hypothesis leb_total : forall a b, leb a b = true \/ leb b a = true.
  Hypothesis leb_trans : forall a b c, leb a b = true -> leb b c = true -> leb a c = true.
  Hypothesis leb_antisym : forall a b, leb a b = true -> leb b a = true -> a = b.

  Inductive sorted : list A -> Prop :=
  | sorted_nil : sorted []
  | sorted_cons x l : (forall y, In y l -> leb x y = true) -> sorted l -> sorted (x :: l).

  Lemma insert_sorted_ok x l : sorted l -> sorted (insert_sorted leb x l).
  Proof.
    induction 1 as [|y l Hy Hs IH]; simpl.
    - constructor; [intros ? []|constructor].
    - destruct (leb x y) eqn:E.
      + constructor; [|now constructor]. intros z [<-|Hz]; [exact E|]. eapply leb_trans; [exact E|auto].
      + constructor; [|exact IH]. intros z Hz.
        apply (Permutation_in z (Permutation_sym (insert_sorted_perm A leb x l))) in Hz.
        destruct Hz as [<-|Hz]; [|auto]. destruct (leb_total x y) as [H|H]; [congruence|exact H].
  Qed.

  Lemma isort_sorted l : sorted (isort leb l).
  Proof. induction l as [|x r IH]; simpl; [constructor|now apply insert_sorted_ok]. Qed.

  (* a sorted list without two elements of the same rank is determined by its elements *)
  Lemma sorted_perm_unique l1 : forall l2, sorted l1 -> sorted l2 -> NoDup l1 -> Permutation l1 l2 -> l1 = l2.
  Proof.
    induction l1 as [|x r IH]; intros l2 S1 S2 ND P.
    - apply Permutation_nil in P. now subst.
    - destruct l2 as [|y r2]; [apply Permutation_sym, Permutation_nil in P; discriminate|].
      inversion S1 as [|? ? Hx Sr]; inversion S2 as [|? ? Hy Sr2]; subst.
      assert (x = y).
      { assert (In x (y :: r2)) as Hin by (eapply Permutation_in; [exact P|now left]).
        assert (In y (x :: r)) as Hin2 by (eapply Permutation_in; [apply Permutation_sym; exact P|now left]).
        destruct Hin as [->|Hin]; [reflexivity|]. destruct Hin2 as [->|Hin2]; [reflexivity|].
        apply leb_antisym; auto. }
      subst y. f_equal. apply IH; auto.
      + now inversion ND.
      + now apply Permutation_cons_inv in P.
  Qed.

  (* the report: sort; order of the inputs is irrelevant *)
  Theorem sort_perm_invariant_all l1 l2 : NoDup l1 -> Permutation l1 l2 -> isort leb l1 = isort leb l2.
  Proof.
    intros ND P. apply sorted_perm_unique; try apply isort_sorted.
    - eapply Permutation_NoDup; [apply isort_perm|exact ND].
    - etransitivity; [apply Permutation_sym, isort_perm|]. etransitivity; [exact P|apply isort_perm].
  Qed.

  Theorem sorted_output_all l : sorted (isort leb l) /\ Permutation l (isort leb l).
  Proof. split; [apply isort_sorted|apply isort_perm]. Qed.
End Sorted.

(* ---- checking several groups of files together or one after the other ---- *)
Theorem partition_invariant_all (A : Type) (leb : A -> A -> bool) :
  (forall a b, leb a b = true \/ leb b a = true) ->
  (forall a b c, leb a b = true -> leb b c = true -> leb a c = true) ->
  (forall a b, leb a b = true -> leb b a = true -> a = b) ->
  forall (groups : list (list A)), NoDup (List.concat groups) ->
    isort leb (List.concat groups) = isort leb (List.concat (map (isort leb) groups)).
Proof.
  intros T Tr An groups ND. apply sort_perm_invariant_all; auto.
  clear ND. induction groups as [|g r IH]; simpl; [constructor|].
  apply Permutation_app; [apply isort_perm|exact IH].
Qed.

(* ---- the concrete key: a lexicographic tuple of string and number fields ---- *)
Inductive fld := FS (s : string) | FN (n : N).

Fixpoint str_ltb (a b : string) : bool :=
  match a, b with
  | _, EmptyString => false
  | EmptyString, String _ _ => true
  | String x a', String y b' =>
      let nx := N_of_ascii x in let ny := N_of_ascii y in
      if N.ltb nx ny then true else if N.ltb ny nx then false else str_ltb a' b'
  end.

Definition fld_ltb (a b : fld) : bool :=
  match a, b with
  | FS x, FS y => str_ltb x y
  | FN x, FN y => N.ltb x y
  | FN _, FS _ => true            (* never compared in a well-formed key: the shapes agree *)
  | FS _, FN _ => false
  end.
Definition fld_eqb (a b : fld) : bool :=
  match a, b with FS x, FS y => String.eqb x y | FN x, FN y => N.eqb x y | _, _ => false end.

Fixpoint key_leb (a b : list fld) : bool :=
  match a, b with
  | [], _ => true
  | _ :: _, [] => false
  | x :: a', y :: b' => if fld_ltb x y then true else if fld_eqb x y then key_leb a' b' else false
  end.

Lemma str_ltb_irrefl a : str_ltb a a = false.
Proof. induction a as [|c r IH]; simpl; [reflexivity|]. now rewrite N.ltb_irrefl. Qed.

Lemma str_trichotomy a : forall b, str_ltb a b = true \/ a = b \/ str_ltb b a = true.
Proof.
  induction a as [|x a IH]; intros [|y b]; simpl; auto.
  destruct (N.ltb_spec (N_of_ascii x) (N_of_ascii y)) as [H|H]; [auto|].
  destruct (N.ltb_spec (N_of_ascii y) (N_of_ascii x)) as [H2|H2]; [auto|].
  assert (E : x = y).
  { assert (N_of_ascii x = N_of_ascii y) as E by lia. rewrite <- (ascii_N_embedding x), <- (ascii_N_embedding y). now rewrite E. }
  subst y. destruct (IH b) as [H3|[->|H3]]; auto.
Qed.

Lemma str_ltb_asym a : forall b, str_ltb a b = true -> str_ltb b a = false.
Proof.
  induction a as [|x a IH]; intros [|y b]; simpl; try discriminate; try reflexivity.
  destruct (N.ltb_spec (N_of_ascii x) (N_of_ascii y)) as [H|H].
  - intros _. destruct (N.ltb_spec (N_of_ascii y) (N_of_ascii x)); [lia|reflexivity].
  - destruct (N.ltb_spec (N_of_ascii y) (N_of_ascii x)) as [H2|H2]; [discriminate|]. apply IH.
Qed.

Lemma str_ltb_trans a : forall b c, str_ltb a b = true -> str_ltb b c = true -> str_ltb a c = true.
Proof.
  induction a as [|x a IH]; intros [|y b] [|z c]; simpl; try discriminate; try reflexivity.
  destruct (N.ltb_spec (N_of_ascii x) (N_of_ascii y)) as [H|H];
    destruct (N.ltb_spec (N_of_ascii y) (N_of_ascii z)) as [H2|H2];
    destruct (N.ltb_spec (N_of_ascii x) (N_of_ascii z)) as [H3|H3]; try reflexivity; try lia; intros A B;
    destruct (N.ltb_spec (N_of_ascii y) (N_of_ascii x)) as [H4|H4]; try discriminate;
    destruct (N.ltb_spec (N_of_ascii z) (N_of_ascii y)) as [H5|H5]; try discriminate; try lia;
    destruct (N.ltb_spec (N_of_ascii z) (N_of_ascii x)) as [H6|H6]; try lia.
  eapply IH; eauto.
Qed.

(* ---- fld is strictly totally ordered; key_leb is its lexicographic extension ---- *)
Lemma fld_eqb_spec a b : fld_eqb a b = true <-> a = b.
Proof.
  destruct a, b; simpl; try (split; congruence).
  - rewrite String.eqb_eq. split; congruence.
  - rewrite N.eqb_eq. split; congruence.
Qed.

Lemma fld_trichotomy a b : fld_ltb a b = true \/ a = b \/ fld_ltb b a = true.
Proof.
  destruct a as [x|x], b as [y|y]; simpl; auto.
  - destruct (str_trichotomy x y) as [H|[->|H]]; auto.
  - destruct (N.ltb_spec x y); auto. destruct (N.ltb_spec y x); auto. right. left. f_equal. lia.
Qed.

Lemma fld_ltb_asym a b : fld_ltb a b = true -> fld_ltb b a = false.
Proof.
  destruct a as [x|x], b as [y|y]; simpl; try discriminate; try reflexivity.
  - apply str_ltb_asym.
  - intros H. apply N.ltb_lt in H. apply N.ltb_ge. lia.
Qed.

Lemma fld_ltb_trans a b c : fld_ltb a b = true -> fld_ltb b c = true -> fld_ltb a c = true.
Proof.
  destruct a as [x|x], b as [y|y], c as [z|z]; simpl; try discriminate; try reflexivity.
  - apply str_ltb_trans.
  - intros H1 H2. apply N.ltb_lt in H1, H2. apply N.ltb_lt. lia.
Qed.

Lemma fld_ltb_irrefl a : fld_ltb a a = false.
Proof. destruct a; simpl; [apply str_ltb_irrefl|apply N.ltb_irrefl]. Qed.

Lemma key_leb_total a : forall b, key_leb a b = true \/ key_leb b a = true.
Proof.
  induction a as [|x a IH]; intros [|y b]; simpl; auto.
  destruct (fld_trichotomy x y) as [H|[->|H]].
  - rewrite H. auto.
  - rewrite fld_ltb_irrefl. assert (fld_eqb y y = true) as -> by now apply fld_eqb_spec. apply IH.
  - rewrite H. auto.
Qed.

Lemma key_leb_antisym a : forall b, key_leb a b = true -> key_leb b a = true -> a = b.
Proof.
  induction a as [|x a IH]; intros [|y b]; simpl; try discriminate; try reflexivity.
  destruct (fld_ltb x y) eqn:L1.
  - rewrite (fld_ltb_asym _ _ L1). destruct (fld_eqb y x) eqn:E; [|discriminate].
    apply fld_eqb_spec in E. subst. rewrite fld_ltb_irrefl in L1. discriminate.
  - destruct (fld_eqb x y) eqn:E; [|discriminate]. apply fld_eqb_spec in E. subst y.
    rewrite fld_ltb_irrefl. assert (fld_eqb x x = true) as -> by now apply fld_eqb_spec.
    intros H1 H2. f_equal. now apply IH.
Qed.

Lemma key_leb_trans a : forall b c, key_leb a b = true -> key_leb b c = true -> key_leb a c = true.
Proof.
  induction a as [|x a IH]; intros [|y b] [|z c]; simpl; try discriminate; try reflexivity.
  destruct (fld_ltb x y) eqn:L1.
  - intros _. destruct (fld_ltb y z) eqn:L2.
    + intros _. now rewrite (fld_ltb_trans _ _ _ L1 L2).
    + destruct (fld_eqb y z) eqn:E; [|discriminate]. apply fld_eqb_spec in E. subst z. now rewrite L1.
  - destruct (fld_eqb x y) eqn:E; [|discriminate]. apply fld_eqb_spec in E. subst y.
    intros H1. destruct (fld_ltb x z) eqn:L2; [reflexivity|].
    destruct (fld_eqb x z) eqn:E2; [|discriminate]. intros H2. eapply IH; eauto.
Qed.
