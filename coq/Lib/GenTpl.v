(* GenTpl.v — hand-written model of refurb/gen.py: build_imports, the instantiation of
   FILE_TEMPLATE and get_next_error_id; tied by C19 (the generated text is compared with
   the real generator's output for every selection tried). *)
From Lib Require Import Base.
Open Scope list_scope.
Local Notation length := List.length.

Section Gen.
  Variable module_of : string -> string.       (* NODES[name].__module__ *)

  Fixpoint dedup (l : list string) : list string :=
    match l with [] => [] | x :: r => if memb String.eqb x r then dedup r else x :: dedup r end.

  Definition modules (sel : list string) : list string := isort str_leb (dedup (map module_of sel)).

  (* sorted(modules.items()): one line per module, names in selection order *)
  Definition import_lines (sel : list string) : list (string * list string) :=
    map (fun m => (m, filter (fun n => String.eqb (module_of n) m) sel)) (modules sel).

  Definition render_import (l : string * list string) : string :=
    ("from " ++ fst l ++ " import " ++ concat_str ", " (snd l))%string.

  Definition build_imports (sel : list string) : string := concat_str nl (map render_import (import_lines sel)).

  Definition accept_type (sel : list string) : string := concat_str " | " sel.
  Definition pattern (sel : list string) : string := concat_str " | " (map (fun x => (x ++ "()")%string) sel).

  Lemma dedup_In x l : In x (dedup l) <-> In x l.
  Proof.
    induction l as [|y r IH]; simpl; [tauto|].
    destruct (memb String.eqb y r) eqn:E.
    - rewrite IH. split; [auto|]. intros [E2|H]; [|exact H]. subst y. exact (proj1 (memb_In _ String.eqb String.eqb_eq _ _) E).
    - simpl. rewrite IH. tauto.
  Qed.

  Lemma dedup_NoDup l : NoDup (dedup l).
  Proof.
    induction l as [|y r IH]; simpl; [constructor|].
    destruct (memb String.eqb y r) eqn:E; [exact IH|]. constructor; [|exact IH].
    intros H. apply (proj1 (dedup_In _ _)) in H. apply (proj2 (memb_In _ String.eqb String.eqb_eq _ _)) in H. congruence.
  Qed.

  Lemma modules_In m sel : In m (modules sel) <-> exists n, In n sel /\ module_of n = m.
  Proof.
    unfold modules. split.
    - intros H. apply (Permutation_in _ (Permutation_sym (isort_perm _ str_leb _))) in H.
      apply (proj1 (dedup_In _ _)) in H. apply in_map_iff in H as (n & E & Hn). now exists n.
    - intros (n & Hn & E). apply (Permutation_in _ (isort_perm _ str_leb _)). apply (proj2 (dedup_In _ _)). apply in_map_iff. now exists n.
  Qed.

  Lemma modules_NoDup sel : NoDup (modules sel).
  Proof. unfold modules. eapply Permutation_NoDup; [apply isort_perm|apply dedup_NoDup]. Qed.

  (* every selected node type is imported, from its own module, in exactly one line,
     exactly once *)
  Theorem imports_cover_all : forall sel n, NoDup sel -> In n sel ->
    (exists ns, In (module_of n, ns) (import_lines sel) /\ count_occ string_dec ns n = 1) /\
    (forall m ns, In (m, ns) (import_lines sel) -> In n ns -> m = module_of n) /\
    NoDup (map fst (import_lines sel)).
  Proof.
    intros sel n ND Hn. split; [|split].
    - exists (filter (fun x => String.eqb (module_of x) (module_of n)) sel). split.
      + unfold import_lines. apply in_map_iff. exists (module_of n). split; [reflexivity|].
        apply modules_In. now exists n.
      + apply NoDup_count_occ'.
        * now apply NoDup_filter.
        * apply filter_In. split; [exact Hn|apply String.eqb_refl].
    - intros m ns Hl Hin. unfold import_lines in Hl. apply in_map_iff in Hl as (m' & E & _). inversion E; subst.
      apply filter_In in Hin as [_ Hin]. now apply String.eqb_eq in Hin.
    - unfold import_lines. rewrite map_map. simpl. rewrite map_id. apply modules_NoDup.
  Qed.

  (* nothing else is imported *)
  Theorem imports_only_selection : forall sel m ns n, In (m, ns) (import_lines sel) -> In n ns -> In n sel.
  Proof.
    intros sel m ns n Hl Hin. unfold import_lines in Hl. apply in_map_iff in Hl as (m' & E & _). inversion E; subst.
    now apply filter_In in Hin as [Hin _].
  Qed.
End Gen.

(* get_next_error_id(prefix) or 100 *)
Definition next_id (existing : list (string * N)) (prefix : string) : N :=
  let highest := fold_left (fun acc pc => if String.eqb (fst pc) prefix then N.max acc (snd pc + 1) else acc) existing 0%N in
  if N.eqb highest 0 then 100%N else highest.

Lemma fold_max_ge existing prefix : forall acc p c,
  In (p, c) existing -> p = prefix ->
  (c < fold_left (fun acc pc => if String.eqb (fst pc) prefix then N.max acc (snd pc + 1) else acc) existing acc)%N.
Proof.
  induction existing as [|[q d] r IH]; intros acc p c Hin Hp; [destruct Hin|].
  simpl. destruct Hin as [E|Hin].
  - inversion E; subst. rewrite String.eqb_refl.
    assert (G : forall l a, (a <= fold_left (fun acc pc => if String.eqb (fst pc) prefix then N.max acc (snd pc + 1) else acc) l a)%N).
    { induction l as [|[q2 d2] l IHl]; intros a; simpl; [lia|]. destruct (String.eqb q2 prefix); [etransitivity; [|apply IHl]; lia|apply IHl]. }
    specialize (G r (N.max acc (c + 1))). lia.
  - now apply (IH _ p c).
Qed.

Theorem next_id_free_all : forall existing prefix,
  ~ In (prefix, next_id existing prefix) existing /\
  ((forall c, ~ In (prefix, c) existing) -> next_id existing prefix = 100%N).
Proof.
  intros existing prefix. split.
  - intros Hin. unfold next_id in Hin.
    set (h := fold_left _ existing 0%N) in *.
    destruct (N.eqb_spec h 0) as [E|E].
    + pose proof (fold_max_ge existing prefix 0%N prefix 100%N Hin eq_refl) as H. fold h in H. lia.
    + pose proof (fold_max_ge existing prefix 0%N prefix h Hin eq_refl) as H. fold h in H. lia.
  - intros Hno. unfold next_id.
    assert (E : fold_left (fun acc pc => if String.eqb (fst pc) prefix then N.max acc (snd pc + 1) else acc) existing 0%N = 0%N).
    { assert (G : forall l a, (forall c, ~ In (prefix, c) l) ->
                fold_left (fun acc pc => if String.eqb (fst pc) prefix then N.max acc (snd pc + 1) else acc) l a = a).
      { induction l as [|[q d] l IHl]; intros a H; simpl; [reflexivity|].
        destruct (String.eqb_spec q prefix) as [->|N]; [exfalso; apply (H d); now left|].
        apply IHl. intros c Hc. apply (H c). now right. }
      now apply G. }
    now rewrite E.
Qed.
