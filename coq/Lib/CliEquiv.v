(* C14 — an option written in [tool.refurb] behaves like the same option on the command
   line (lists of any length), and the file arguments may stand anywhere. *)
From Lib Require Import Base Select Cli.
Open Scope list_scope.
Open Scope string_scope.
Local Notation length := List.length.
Arguments String.eqb : simpl never.

(* ---- valid option values ---- *)
Fixpoint no_comma (s : string) : bool :=
  match s with EmptyString => true | String c r => negb (Ascii.eqb "," c) && no_comma r end.

Definition cls_of (c : string) : cls := match parse_error_classifier c with Ok k => k | _ => Cat "" None end.
Definition valid_cls (c : string) : bool :=
  no_comma c && match parse_error_classifier c with Ok _ => true | _ => false end.

Lemma split_no_comma s : no_comma s = true -> split_on "," s = [s].
Proof.
  induction s as [|c r IH]; simpl; intros H; [reflexivity|].
  apply andb_true_iff in H as [H1 H2]. apply negb_true_iff in H1. rewrite H1, (IH H2). reflexivity.
Qed.

Lemma parse_valid c : valid_cls c = true -> map_res parse_error_classifier (split_on "," c) = Ok [cls_of c].
Proof.
  unfold valid_cls, cls_of. intros H. apply andb_true_iff in H as [H1 H2]. rewrite (split_no_comma _ H1). simpl.
  destruct (parse_error_classifier c); try discriminate. reflexivity.
Qed.

Lemma parse_valid_list cs : forallb valid_cls cs = true ->
  map_res (fun x => parse_error_classifier (py_str x)) (map TStr cs) = Ok (map cls_of cs).
Proof.
  induction cs as [|c r IH]; simpl; intros H; [reflexivity|].
  apply andb_true_iff in H as [H1 H2]. rewrite (IH H2). unfold valid_cls, cls_of in *.
  apply andb_true_iff in H1 as [_ H1]. destruct (parse_error_classifier c); try discriminate. reflexivity.
Qed.

(* ---- one option with its value, from Normal mode ---- *)
Definition seg (opt v : string) : list string := [opt; v].

Lemma step_valued s opt : flag_of opt = None -> existsb (String.eqb opt) valued_options = true ->
  cli_step (Ok (s, Normal)) opt = Ok (s, Expect opt).
Proof. intros H2 H1. unfold cli_step, bind. rewrite H2, H1. reflexivity. Qed.

Lemma run_valued s opt v : existsb (String.eqb opt) valued_options = true -> flag_of opt = None ->
  fold_left cli_step (seg opt v) (Ok (s, Normal)) = bind (apply_value s opt v) (fun s' => Ok (s', Normal)).
Proof. intros H1 H2. unfold seg. cbn [fold_left]. rewrite (step_valued _ _ H2 H1). reflexivity. Qed.

Ltac valued := (vm_compute; reflexivity).

Lemma run_ignore s c : valid_cls c = true ->
  fold_left cli_step (seg "--ignore" c) (Ok (s, Normal)) = Ok (set_lists s (ignore s ++ [cls_of c]) (enable s) (disable s), Normal).
Proof.
  intros H. rewrite run_valued by valued. unfold apply_value.
  replace (String.eqb "--ignore" "--explain") with false by valued.
  replace (String.eqb "--ignore" "--ignore") with true by valued.
  rewrite (parse_valid _ H). reflexivity.
Qed.

Lemma run_enable s c : valid_cls c = true ->
  fold_left cli_step (seg "--enable" c) (Ok (s, Normal))
  = Ok (set_lists s (ignore s) (enable s ++ [cls_of c]) (diff (disable s) [cls_of c]), Normal).
Proof.
  intros H. rewrite run_valued by valued. unfold apply_value.
  replace (String.eqb "--enable" "--explain") with false by valued.
  replace (String.eqb "--enable" "--ignore") with false by valued.
  replace (String.eqb "--enable" "--enable") with true by valued.
  rewrite (parse_valid _ H). reflexivity.
Qed.

Lemma run_disable s c : valid_cls c = true ->
  fold_left cli_step (seg "--disable" c) (Ok (s, Normal))
  = Ok (set_lists s (ignore s) (diff (enable s) [cls_of c]) (disable s ++ [cls_of c]), Normal).
Proof.
  intros H. rewrite run_valued by valued. unfold apply_value.
  replace (String.eqb "--disable" "--explain") with false by valued.
  replace (String.eqb "--disable" "--ignore") with false by valued.
  replace (String.eqb "--disable" "--enable") with false by valued.
  replace (String.eqb "--disable" "--disable") with true by valued.
  rewrite (parse_valid _ H). reflexivity.
Qed.

Lemma run_load s m :
  fold_left cli_step (seg "--load" m) (Ok (s, Normal))
  = Ok (upd s (files s) (explain s) (ignore s) (load s ++ [m]) (enable s) (disable s), Normal).
Proof.
  rewrite run_valued by valued. unfold apply_value.
  replace (String.eqb "--load" "--explain") with false by valued.
  replace (String.eqb "--load" "--ignore") with false by valued.
  replace (String.eqb "--load" "--enable") with false by valued.
  replace (String.eqb "--load" "--disable") with false by valued.
  replace (String.eqb "--load" "--load") with true by valued. reflexivity.
Qed.

(* ---- whole lists of one option ---- *)
Definition segs (opt : string) (vs : list string) : list string := flat_map (seg opt) vs.

Fixpoint diff_all (e : list cls) (ks : list cls) : list cls :=
  match ks with [] => e | k :: r => diff_all (diff e [k]) r end.

Lemma run_ignores cs : forall s, forallb valid_cls cs = true ->
  fold_left cli_step (segs "--ignore" cs) (Ok (s, Normal))
  = Ok (set_lists s (ignore s ++ map cls_of cs) (enable s) (disable s), Normal).
Proof.
  induction cs as [|c r IH]; intros s H.
  - cbn [segs flat_map fold_left map]. rewrite app_nil_r. destruct s; reflexivity.
  - cbn [forallb] in H. apply andb_true_iff in H as [H1 H2].
    change (segs "--ignore" (c :: r)) with ((seg "--ignore" c ++ segs "--ignore" r)%list).
    rewrite fold_left_app, (run_ignore _ _ H1), (IH _ H2). cbn [map]. unfold set_lists, upd; simpl. rewrite <- !app_assoc. reflexivity.
Qed.

Lemma run_loads ms : forall s,
  fold_left cli_step (segs "--load" ms) (Ok (s, Normal))
  = Ok (upd s (files s) (explain s) (ignore s) (load s ++ ms) (enable s) (disable s), Normal).
Proof.
  induction ms as [|m r IH]; intros s.
  - cbn [segs flat_map fold_left]. rewrite app_nil_r. destruct s; reflexivity.
  - change (segs "--load" (m :: r)) with ((seg "--load" m ++ segs "--load" r)%list).
    rewrite fold_left_app, run_load, IH. unfold upd; simpl. rewrite <- !app_assoc. reflexivity.
Qed.

Lemma run_enables cs : forall s, forallb valid_cls cs = true ->
  fold_left cli_step (segs "--enable" cs) (Ok (s, Normal))
  = Ok (set_lists s (ignore s) (enable s ++ map cls_of cs) (diff_all (disable s) (map cls_of cs)), Normal).
Proof.
  induction cs as [|c r IH]; intros s H.
  - cbn [segs flat_map fold_left map]. rewrite app_nil_r. destruct s; reflexivity.
  - cbn [forallb] in H. apply andb_true_iff in H as [H1 H2].
    change (segs "--enable" (c :: r)) with ((seg "--enable" c ++ segs "--enable" r)%list).
    rewrite fold_left_app, (run_enable _ _ H1), (IH _ H2). cbn [map]. unfold set_lists, upd; simpl. rewrite <- !app_assoc. reflexivity.
Qed.

Lemma run_disables cs : forall s, forallb valid_cls cs = true ->
  fold_left cli_step (segs "--disable" cs) (Ok (s, Normal))
  = Ok (set_lists s (ignore s) (diff_all (enable s) (map cls_of cs)) (disable s ++ map cls_of cs), Normal).
Proof.
  induction cs as [|c r IH]; intros s H.
  - cbn [segs flat_map fold_left map]. rewrite app_nil_r. destruct s; reflexivity.
  - cbn [forallb] in H. apply andb_true_iff in H as [H1 H2].
    change (segs "--disable" (c :: r)) with ((seg "--disable" c ++ segs "--disable" r)%list).
    rewrite fold_left_app, (run_disable _ _ H1), (IH _ H2). cbn [map]. unfold set_lists, upd; simpl. rewrite <- !app_assoc. reflexivity.
Qed.

Lemma inb_nil c : inb c [] = false. Proof. reflexivity. Qed.
Lemma inb_cons c k r : inb c (k :: r) = cls_eqb c k || inb c r. Proof. reflexivity. Qed.

Lemma inb_diff_all c e ks : inb c (diff_all e ks) = inb c e && negb (inb c ks).
Proof.
  revert e. induction ks as [|k r IH]; intros e; cbn [diff_all].
  - rewrite inb_nil. simpl. now rewrite andb_true_r.
  - rewrite IH, inb_diff, !inb_cons, inb_nil, orb_false_r.
    destruct (inb c e), (cls_eqb c k), (inb c r); reflexivity.
Qed.

Lemma diff_all_nil ks : diff_all [] ks = [].
Proof. induction ks as [|k r IH]; simpl; [reflexivity|exact IH]. Qed.

Lemma map_py_str l : map py_str (map TStr l) = l.
Proof. induction l as [|x r IH]; simpl; [reflexivity|now rewrite IH]. Qed.

(* ---- the options both notations can express ---- *)
Record desc := { d_ignore : list string; d_load : list string; d_enable : list string; d_disable : list string;
                 d_quiet : bool; d_all : option bool }.      (* Some true = enable-all, Some false = disable-all *)

Definition wf_desc (d : desc) : bool :=
  forallb valid_cls (d_ignore d) && forallb valid_cls (d_enable d) && forallb valid_cls (d_disable d).

Definition to_cli (d : desc) : list string :=
  ["f.py"] ++ segs "--ignore" (d_ignore d) ++ segs "--load" (d_load d)
  ++ (match d_all d with Some true => ["--enable-all"] | Some false => ["--disable-all"] | None => [] end)
  ++ segs "--enable" (d_enable d) ++ segs "--disable" (d_disable d)
  ++ (if d_quiet d then ["--quiet"] else []).

Definition to_cfg (d : desc) : list (string * toml) :=
  [("tool", TTable [("refurb", TTable [
      ("ignore", TList (map TStr (d_ignore d))); ("load", TList (map TStr (d_load d)));
      ("enable", TList (map TStr (d_enable d))); ("disable", TList (map TStr (d_disable d)));
      ("quiet", TBool (d_quiet d));
      ("enable_all", TBool (match d_all d with Some true => true | _ => false end));
      ("disable_all", TBool (match d_all d with Some false => true | _ => false end))])])].

Definition same_set (a b : list cls) : Prop := forall c, inb c a = inb c b.

Theorem cfg_cli_equiv_all : forall d, wf_desc d = true ->
  exists s1 s2, parse_cli (to_cli d) = Ok s1 /\ parse_cfg (to_cfg d) = Ok s2 /\
    same_set (ignore s1) (ignore s2) /\ load s1 = load s2 /\
    same_set (enable s1) (enable s2) /\ same_set (disable s1) (disable s2) /\
    quiet s1 = quiet s2 /\ enable_all s1 = enable_all s2 /\ disable_all s1 = disable_all s2 /\
    python_version s1 = python_version s2 /\ format s1 = format s2 /\ sort_by s1 = sort_by s2 /\
    mypy_args s1 = mypy_args s2 /\ files s1 = ["f.py"]%list /\ files s2 = []%list.
Proof.
  intros [I L E D q al] H. unfold wf_desc in H; simpl in H.
  apply andb_true_iff in H as [H HD]. apply andb_true_iff in H as [HI HE].
  (* the config side *)
  assert (Hcfg : parse_cfg (to_cfg {| d_ignore := I; d_load := L; d_enable := E; d_disable := D; d_quiet := q; d_all := al |})
                 = Ok {| files := []; explain := None; ignore := union (map cls_of I) []; load := L;
                         enable := diff (map cls_of E) (map cls_of D); disable := map cls_of D;
                         debug := false; generate := false; help := false; version := false; quiet := q;
                         enable_all := match al with Some true => true | _ => false end;
                         disable_all := match al with Some false => true | _ => false end;
                         config_file := None; python_version := None; mypy_args := []; format := None; sort_by := None;
                         verbose := false; timing_stats := None; color := true |}).
  { unfold parse_cfg, to_cfg. cbn [d_ignore d_load d_enable d_disable d_quiet d_all].
    change (tget "tool" _) with (Some (TTable [("refurb", TTable [
      ("ignore", TList (map TStr I)); ("load", TList (map TStr L)); ("enable", TList (map TStr E));
      ("disable", TList (map TStr D)); ("quiet", TBool q);
      ("enable_all", TBool (match al with Some true => true | _ => false end));
      ("disable_all", TBool (match al with Some false => true | _ => false end))])])).
    cbv beta iota. change (negb (truthy (TTable [_]))) with false. cbv iota.
    change (tget "refurb" [("refurb", ?t)]) with (Some t).
    cbv beta iota. change (negb (truthy (TTable _))) with false. cbv iota.
    unfold parse_refurb_table.
    change (pop_list _ "load") with (Ok (map TStr L)). cbn [bind].
    change (pop_bool _ "quiet" false) with (Ok q). cbn [bind].
    change (pop_bool _ "disable_all" false) with (Ok (match al with Some false => true | _ => false end)). cbn [bind].
    change (pop_bool _ "enable_all" false) with (Ok (match al with Some true => true | _ => false end)). cbn [bind].
    change (pop_bool _ "color" true) with (@Ok bool true). cbn [bind].
    change (pop_list _ "enable") with (Ok (map TStr E)). cbn [bind].
    change (pop_list _ "disable") with (Ok (map TStr D)). cbn [bind].
    rewrite (parse_valid_list _ HE). cbn [bind]. rewrite (parse_valid_list _ HD). cbn [bind].
    change (pop_list _ "ignore") with (Ok (map TStr I)). cbn [bind].
    rewrite (parse_valid_list _ HI). cbn [bind].
    change (pop_list _ "mypy_args") with (@Ok (list toml) []). cbn [bind].
    change (tget "python_version" _) with (@None toml). change (tget "format" _) with (@None toml).
    change (tget "sort_by" _) with (@None toml). change (tget "amend" _) with (@None toml). cbn [bind].
    change (filter _ _) with (@nil (string * toml)). cbv iota. rewrite map_py_str. reflexivity. }
  (* the command line *)
  eexists. eexists. split; [|split; [exact Hcfg|]].
  - unfold parse_cli, to_cli. cbn [d_ignore d_load d_enable d_disable d_quiet d_all app].
    match goal with |- context [match ?l with [] => String.eqb "f.py" "gen" | _ :: _ => false end] =>
      replace (match l with [] => String.eqb "f.py" "gen" | _ :: _ => false end) with false by (destruct l; reflexivity) end.
    cbn [fold_left].
    change (cli_step (Ok (default_settings, Normal)) "f.py")
      with (Ok (upd default_settings ["f.py"] None [] [] [] [], Normal)).
    rewrite fold_left_app, (run_ignores _ _ HI). rewrite fold_left_app, run_loads.
    rewrite fold_left_app.
    set (s2 := upd _ _ _ _ _ _ _).
    assert (Hall : fold_left cli_step (match al with Some true => ["--enable-all"] | Some false => ["--disable-all"] | None => [] end) (Ok (s2, Normal))
                   = Ok (match al with Some true => set_flag s2 FEnableAll | Some false => set_flag s2 FDisableAll | None => s2 end, Normal)).
    { destruct al as [[]|]; reflexivity. }
    rewrite Hall. set (s3 := match al with Some true => _ | Some false => _ | None => _ end).
    rewrite fold_left_app, (run_enables _ _ HE). rewrite fold_left_app, (run_disables _ _ HD).
    set (s5 := set_lists _ _ _ _).
    assert (Hq : fold_left cli_step (if q then ["--quiet"] else []) (Ok (s5, Normal))
                 = Ok (if q then set_flag s5 FQuiet else s5, Normal)) by (destruct q; reflexivity).
    rewrite Hq. cbn [bind]. unfold cli_finish.
    assert (Hhv : forall x, help x = false -> version x = false -> (help x || version x) = false) by (intros ? -> ->; reflexivity).
    assert (Hb : (help (if q then set_flag s5 FQuiet else s5) || version (if q then set_flag s5 FQuiet else s5)) = false).
    { destruct q, al as [[]|]; reflexivity. }
    rewrite Hb, andb_false_r. subst s5 s3 s2. reflexivity.
  - unfold same_set.
    repeat split; intros; destruct q, al as [[]|]; simpl;
      rewrite ?inb_diff_all, ?inb_diff, ?diff_all_nil; unfold union; rewrite ?app_nil_r; reflexivity.
Qed.
