(* PySyn.v — evaluation of the pure expression fragment the first-wave rewrite rules live in,
   directly on the syntax trees refurb's checks match on (Lib/PyAst.v), with the operations of
   Lib/PyEval.v.  Operands are arbitrary sub-expressions: a name is looked up, a literal is what
   its rendering denotes (a parameter: any assignment of values to renderings), everything else
   outside the fragment evaluates to None ("not modelled"), which a soundness statement excludes
   by hypothesis.  Evaluation goes through the syntactic projection `syn` (Lib/Equiv.v), so two
   operands that is_equivalent identifies evaluate alike -- that is the bridge from the checks'
   sameness guard to behaviour. *)
From Coq Require Import QArith.
From Lib Require Import Base PyAst PyEval PyRules Equiv.
Open Scope list_scope.
Open Scope string_scope.

Section Eval.
  Variable lit : string -> option obj.     (* the value a literal / opaque node denotes, by its rendering *)
  Variable rho : string -> option obj.     (* the value of a name *)

  (* x <op> y for the comparison operators (None: not comparable / not modelled) *)
  Definition cmp (op : string) (x y : obj) : option obj :=
    if String.eqb op "<" then option_map vbool (py_lt (val x) (val y))
    else if String.eqb op ">" then option_map vbool (py_lt (val y) (val x))
    else if String.eqb op "<=" then
      match py_lt (val x) (val y) with Some b => Some (vbool (b || py_eq (val x) (val y))) | None => None end
    else if String.eqb op ">=" then
      match py_lt (val y) (val x) with Some b => Some (vbool (b || py_eq (val x) (val y))) | None => None end
    else if String.eqb op "==" then Some (vbool (py_eq (val x) (val y)))
    else if String.eqb op "!=" then Some (vbool (negb (py_eq (val x) (val y))))
    else if String.eqb op "is" then Some (vbool (py_is x y))
    else if String.eqb op "is not" then Some (vbool (negb (py_is x y)))
    else None.

  Fixpoint all_some (l : list (option obj)) : option (list obj) :=
    match l with
    | [] => Some []
    | Some x :: r => match all_some r with Some xs => Some (x :: xs) | None => None end
    | None :: _ => None
    end.

  (* evaluation of a syn-projected tree *)
  Fixpoint ev (e : expr) : option obj :=
    let evs := fix evs (l : list expr) : list (option obj) :=
      match l with [] => [] | x :: r => ev x :: evs r end in
    match e with
    | EName n _ => rho n
    | EOpaque _ _ t => lit t
    | ECond c a b =>
        match ev c with Some v => if py_truthy (val v) then ev a else ev b | None => None end
    | EUnary op a => if String.eqb op "not" then option_map py_not (ev a) else None
    | EOp op a b =>
        if String.eqb op "or" then
          match ev a with Some v => if py_truthy (val v) then Some v else ev b | None => None end
        else if String.eqb op "and" then
          match ev a with Some v => if py_truthy (val v) then ev b else Some v | None => None end
        else None
    | ECmp [op] [a; b] =>
        match b with
        | ETuple items | EList items | ESet items =>
            (* a display on the right: membership, left operand first, then the items left to right *)
            match ev a, all_some (evs items) with
            | Some x, Some ys =>
                if String.eqb op "in" then Some (vbool (py_in x ys))
                else if String.eqb op "not in" then Some (vbool (negb (py_in x ys)))
                else None
            | _, _ => None
            end
        | _ => match ev a, ev b with Some x, Some y => cmp op x y | _, _ => None end
        end
    | ECall (EName f _) [(ARG_POS, None, a)] =>
        if String.eqb f "bool" then option_map py_bool (ev a) else None
    | ECall (EName f _) [(ARG_POS, None, a); (ARG_POS, None, b)] =>
        match ev a, ev b with
        | Some x, Some y => if String.eqb f "min" then py_min2 x y else if String.eqb f "max" then py_max2 x y else None
        | _, _ => None
        end
    | _ => None
    end.

  Definition eval (e : expr) : option obj := ev (syn e).

  (* operands the sameness guard identifies evaluate alike *)
  Lemma eval_syn (a b : expr) : syn a = syn b -> eval a = eval b.
  Proof. unfold eval. now intros ->. Qed.

  (* ---- how eval unfolds on the shapes the rules are made of ---- *)
  Lemma eval_cond c a b :
    eval (ECond c a b) = match eval c with Some v => if py_truthy (val v) then eval a else eval b | None => None end.
  Proof. reflexivity. Qed.

  Lemma eval_or a b :
    eval (EOp "or" a b) = match eval a with Some v => if py_truthy (val v) then Some v else eval b | None => None end.
  Proof. reflexivity. Qed.

  Lemma eval_not a : eval (EUnary "not" a) = option_map py_not (eval a).
  Proof. reflexivity. Qed.

  Lemma eval_bool a f : eval (ECall (EName "bool" f) [(ARG_POS, None, a)]) = option_map py_bool (eval a).
  Proof. reflexivity. Qed.

  Lemma eval_call2 f g a b :
    eval (ECall (EName f g) [(ARG_POS, None, a); (ARG_POS, None, b)]) =
    match eval a, eval b with
    | Some x, Some y => if String.eqb f "min" then py_min2 x y else if String.eqb f "max" then py_max2 x y else None
    | _, _ => None
    end.
  Proof. reflexivity. Qed.

  (* ---- comparisons: a display on the right is a membership test, anything else a binary comparison ---- *)
  Definition is_display (e : expr) : bool := match e with ETuple _ | EList _ | ESet _ => true | _ => false end.

  Lemma is_display_syn e : is_display (syn e) = is_display e.
  Proof. destruct e; reflexivity. Qed.

  Lemma ev_display_none e : is_display e = true -> ev e = None.
  Proof. destruct e; try discriminate; reflexivity. Qed.

  Lemma eval_display_none e : is_display e = true -> eval e = None.
  Proof. intros H. unfold eval. apply ev_display_none. now rewrite is_display_syn. Qed.

  Lemma eval_cmp op a b : is_display b = false ->
    eval (ECmp [op] [a; b]) = match eval a, eval b with Some x, Some y => cmp op x y | _, _ => None end.
  Proof.
    intros H. unfold eval. cbn [syn map]. rewrite <- is_display_syn in H.
    destruct (syn b); try discriminate; reflexivity.
  Qed.

  Lemma eval_cmp_display_right op a b : is_display b = true -> String.eqb op "in" = false -> String.eqb op "not in" = false ->
    eval (ECmp [op] [a; b]) = None.
  Proof.
    intros H H1 H2. unfold eval. cbn [syn map]. rewrite <- is_display_syn in H.
    destruct (syn b); try discriminate; cbn [ev]; rewrite H1, H2;
      repeat match goal with |- context [match ?x with Some _ => _ | None => _ end] => destruct x end; reflexivity.
  Qed.

  (* x in (y,) / [y] / {y}: x first, then y, then identity-or-equality *)
  Definition display1 (k : nat) (y : expr) : expr := match k with O => EList [y] | S O => ETuple [y] | _ => ESet [y] end.

  Lemma eval_in_display1 (k : nat) (negated : bool) (a y : expr) :
    eval (ECmp [if negated then "not in" else "in"] [a; display1 k y]) =
    match eval a, eval y with
    | Some x, Some vy => Some (vbool (if negated then negb (py_in x [vy]) else py_in x [vy]))
    | _, _ => None
    end.
  Proof.
    unfold eval. destruct k as [|[|k]], negated; cbn [display1 syn map ev all_some String.eqb Ascii.eqb Bool.eqb];
      destruct (ev (syn a)); destruct (ev (syn y)); reflexivity.
  Qed.
End Eval.
