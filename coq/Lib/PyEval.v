(* PyEval.v — values and the builtin operations of the pure Python fragment that the
   first wave of rewrite rules uses: truthiness, ==, is, <, in, and/or/not, conditional,
   min/max, bool(), len(), sorted().  Hand-written; tied to CPython by C01's correspondence
   (closed instances evaluated both ways). *)
From Coq Require Import QArith.
From Lib Require Import Base.
Open Scope list_scope.
Local Notation length := List.length.

(* floats: only order, sign and NaN-ness matter here; a finite float is an exact rational *)
Inductive flt :=
| FNaN
| FInf (neg : bool)
| FNegZero
| FNum (q : Q).                 (* finite, +0.0 included (q == 0) *)

Inductive value :=
| VNone
| VBool (b : bool)
| VInt (z : Z)
| VFloat (f : flt)
| VStr (s : list N)
| VList (items : list value)
| VTuple (items : list value).

(* an object: a value with an optional identity (None = freshly created by the expression) *)
Record obj := { lbl : option nat; val : value }.
Definition fresh (v : value) : obj := {| lbl := None; val := v |}.

(* ---- numbers ---- *)
Definition num_of (v : value) : option (option Q) :=     (* Some None = NaN-like unordered; Some (Some q) *)
  match v with
  | VBool b => Some (Some (if b then 1 else 0)%Q)
  | VInt z => Some (Some (inject_Z z))
  | VFloat (FNum q) => Some (Some q)
  | VFloat FNegZero => Some (Some 0%Q)
  | _ => None
  end.

Inductive ext := ENaN | ENegInf | EPosInf | EQ (q : Q).
Definition ext_of (v : value) : option ext :=
  match v with
  | VFloat FNaN => Some ENaN
  | VFloat (FInf true) => Some ENegInf
  | VFloat (FInf false) => Some EPosInf
  | _ => match num_of v with Some (Some q) => Some (EQ q) | _ => None end
  end.

Definition ext_eqb (a b : ext) : bool :=
  match a, b with
  | ENegInf, ENegInf | EPosInf, EPosInf => true
  | EQ p, EQ q => Qeq_bool p q
  | _, _ => false                       (* NaN equals nothing, not even itself *)
  end.
Definition ext_ltb (a b : ext) : bool :=
  match a, b with
  | ENaN, _ | _, ENaN => false
  | ENegInf, ENegInf => false | ENegInf, _ => true
  | _, ENegInf => false
  | EPosInf, _ => false
  | EQ _, EPosInf => true
  | EQ p, EQ q => negb (Qle_bool q p)
  end.

(* ---- == and < ---- *)
Fixpoint list_lt (lt eq : N -> N -> bool) (a b : list N) : bool :=
  match a, b with
  | _, [] => false
  | [], _ :: _ => true
  | x :: a', y :: b' => if lt x y then true else if eq x y then list_lt lt eq a' b' else false
  end.

Fixpoint py_eq (a b : value) {struct a} : bool :=
  let all2 := fix all2 (l1 l2 : list value) : bool :=
    match l1, l2 with
    | [], [] => true
    | x :: r1, y :: r2 => py_eq x y && all2 r1 r2
    | _, _ => false
    end in
  match a, b with
  | VNone, VNone => true
  | VStr s, VStr t => list_eqb N.eqb s t
  | VList l1, VList l2 => all2 l1 l2
  | VTuple l1, VTuple l2 => all2 l1 l2
  | _, _ => match ext_of a, ext_of b with Some x, Some y => ext_eqb x y | _, _ => false end
  end.

(* x < y for the types the rules compare; None = TypeError *)
Definition py_lt (a b : value) : option bool :=
  match a, b with
  | VStr s, VStr t => Some (list_lt N.ltb N.eqb s t)
  | _, _ => match ext_of a, ext_of b with Some x, Some y => Some (ext_ltb x y) | _, _ => None end
  end.

Definition py_truthy (v : value) : bool :=
  match v with
  | VNone => false
  | VBool b => b
  | VInt z => negb (Z.eqb z 0)
  | VFloat FNaN | VFloat (FInf _) => true
  | VFloat FNegZero => false
  | VFloat (FNum q) => negb (Qeq_bool q 0)
  | VStr s => negb (match s with [] => true | _ => false end)
  | VList l | VTuple l => negb (match l with [] => true | _ => false end)
  end.

(* identity: the singletons None/True/False are identical when equal; anything else only
   when it is the same labelled object *)
Definition py_is (a b : obj) : bool :=
  match val a, val b with
  | VNone, VNone => true
  | VBool x, VBool y => Bool.eqb x y
  | _, _ => match lbl a, lbl b with Some i, Some j => Nat.eqb i j | _, _ => false end
  end.

(* x in container: identity or equality, element by element *)
Definition py_in (x : obj) (items : list obj) : bool := existsb (fun y => py_is x y || py_eq (val x) (val y)) items.

Definition py_or (a b : obj) : obj := if py_truthy (val a) then a else b.
Definition py_and (a b : obj) : obj := if py_truthy (val a) then b else a.
Definition py_not (a : obj) : obj := fresh (VBool (negb (py_truthy (val a)))).
Definition py_bool (a : obj) : obj := fresh (VBool (py_truthy (val a))).
Definition py_cond (c a b : obj) : obj := if py_truthy (val c) then a else b.
Definition vbool (b : bool) : obj := fresh (VBool b).

(* min(x, y) / max(x, y): the first argument wins ties *)
Definition py_min2 (x y : obj) : option obj := match py_lt (val y) (val x) with Some true => Some y | Some false => Some x | None => None end.
Definition py_max2 (x y : obj) : option obj := match py_lt (val x) (val y) with Some true => Some y | Some false => Some x | None => None end.

Definition py_len (v : value) : option Z :=
  match v with VStr s => Some (Z.of_nat (length s)) | VList l | VTuple l => Some (Z.of_nat (length l)) | _ => None end.

(* ---- well-formedness: an identity determines the object ---- *)
Definition same_object_same_value (a b : obj) : Prop := forall i, lbl a = Some i -> lbl b = Some i -> val a = val b.
Definition reflexive (v : value) : Prop := py_eq v v = true.

(* ---- sorted / min / max over integers (the element type of the proved instances) ---- *)
Definition zsorted (l : list Z) : list Z := isort Z.leb l.
Fixpoint zmin (d : Z) (l : list Z) : Z := match l with [] => d | x :: r => zmin (if Z.ltb x d then x else d) r end.
Fixpoint zmax (d : Z) (l : list Z) : Z := match l with [] => d | x :: r => zmax (if Z.ltb d x then x else d) r end.
Definition py_min_list (l : list Z) : option Z := match l with [] => None | x :: r => Some (zmin x r) end.
Definition py_max_list (l : list Z) : option Z := match l with [] => None | x :: r => Some (zmax x r) end.
