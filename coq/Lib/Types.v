(* Types.v — hand-written model of refurb/checks/common.py:_is_same_type / is_same_type over a
   summary of mypy's type objects; the theorem that only an instance of exactly the
   expected class (or a tuple type for `tuple`) qualifies.  Tied by C05's correspondence. *)
From Lib Require Import Base.
Open Scope list_scope.

(* what _is_same_type can tell apart in a mypy Type | SymbolNode *)
Inductive mty :=
| TInst (fullname : string)            (* Instance of a class *)
| TInfo (fullname : string)            (* a TypeInfo (a class object) *)
| TTuple                               (* TupleType whose fallback is builtins.tuple (a named tuple is TOther) *)
| TAny
| TAlias (target : option mty)         (* TypeAliasType; None = unresolved alias *)
| TOther (cls : string).               (* UnionType, NoneType, CallableType, TypeVarType, LiteralType, ... *)

(* the `expected` argument: a Python type object (by name), typing.Any, None, or a fullname string *)
Inductive expected := EType (name : string) | EAny | ENone | EName (fullname : string).

Section SameType.
  Variable simple_types : list (string * expected).     (* SIMPLE_TYPES, regenerated from source *)

  Definition expected_eqb (a b : expected) : bool :=
    match a, b with
    | EType x, EType y => String.eqb x y | EAny, EAny => true | ENone, ENone => true
    | EName x, EName y => String.eqb x y | _, _ => false
    end.

  Definition simple (f : string) : option expected :=
    match lookup String.eqb fst f simple_types with Some (_, e) => Some e | None => None end.

  Fixpoint same_type1 (ty : mty) (e : expected) : bool :=
    match ty with
    | TAlias None => false
    | TAlias (Some t) => same_type1 t e
    | TTuple => expected_eqb e (EType "tuple")
    | TAny => expected_eqb e EAny
    | TInst f | TInfo f =>
        match simple f with
        | Some e' => if expected_eqb e' e then true else match e with EName n => String.eqb f n | _ => false end
        | None => match e with EName n => String.eqb f n | _ => false end
        end
    | TOther _ => false
    end.

  (* ty may be Python's None (get_mypy_type found nothing) *)
  Definition same_type_opt (ty : option mty) (e : expected) : bool :=
    match ty, e with
    | None, ENone => true
    | None, _ => false
    | Some t, _ => same_type1 t e
    end.

  Definition is_same_type (ty : option mty) (es : list expected) : bool := existsb (same_type_opt ty) es.

  Fixpoint base (t : mty) : option mty :=
    match t with TAlias None => None | TAlias (Some t') => base t' | other => Some other end.

  (* a builtin class is expected: only an instance (or the class object) of exactly the
     class that SIMPLE_TYPES maps to it qualifies -- never Any, a union, None, a type
     variable, an unresolved alias or nothing at all *)
  Theorem same_type_exact_all : forall t T, same_type1 t (EType T) = true ->
    match base t with
    | Some (TInst f) | Some (TInfo f) => simple f = Some (EType T)
    | Some TTuple => T = "tuple"%string
    | _ => False
    end.
  Proof.
    fix IH 1. intros t T H. destruct t as [f|f| | |[t'|]|c]; simpl in *; try discriminate.
    - destruct (simple f) as [e'|]; [|discriminate]. destruct (expected_eqb e' (EType T)) eqn:E; [|discriminate].
      destruct e'; simpl in E; try discriminate. apply String.eqb_eq in E. now subst.
    - destruct (simple f) as [e'|]; [|discriminate]. destruct (expected_eqb e' (EType T)) eqn:E; [|discriminate].
      destruct e'; simpl in E; try discriminate. apply String.eqb_eq in E. now subst.
    - apply String.eqb_eq in H. now subst.
    - now apply IH.
  Qed.

  Theorem nothing_never_qualifies : forall T, same_type_opt None (EType T) = false.
  Proof. reflexivity. Qed.
End SameType.
