(* Gates.v — model of the python-version gates inside checks and of the minimum
   Python version each proposed replacement needs (hand-written feature table;
   validated every run against typeshed's sys.version_info guards and the 3.8
   what's-new list by the harness). Versions are minor numbers: 7 = Python 3.7. *)
From Lib Require Import Base.

Inductive gate :=
| ReturnBelow (n : nat)                       (* if settings.get_python_version() < (3, n): return *)
| Switch (n : nat) (new_txt old_txt : string). (* new if version >= (3, n) else old *)

Fixpoint fires (gs : list gate) (v : nat) : bool :=
  match gs with
  | [] => true
  | ReturnBelow n :: r => Nat.leb n v && fires r v
  | Switch _ _ _ :: r => fires r v
  end.

(* minimum version needed by the base replacement text of each check (by code);
   every check not listed proposes only constructs available in 3.7 *)
Definition base_min (code : N) : nat :=
  match code with
  | 134%N => 9    (* functools.cache *)
  | 161%N => 10   (* int.bit_count *)
  | 162%N => 11   (* datetime.fromisoformat accepting a trailing Z *)
  | 173%N => 9    (* dict | dict *)
  | 178%N => 8    (* shlex.join *)
  | 188%N => 9    (* str.removeprefix / removesuffix *)
  | _ => 7
  end.

(* minimum version of the version-dependent message alternatives *)
Definition text_min (s : string) : nat :=
  if String.eqb s "y | z" then 10          (* isinstance(x, y | z): PEP 604 at runtime *)
  else if String.eqb s "(y, z)" then 7
  else 99.                                 (* unknown alternative: fail closed *)

Fixpoint msg_min (code : N) (gs : list gate) (v : nat) : nat :=
  match gs with
  | [] => base_min code
  | ReturnBelow _ :: r => msg_min code r v
  | Switch n a b :: r => Nat.max (if Nat.leb n v then text_min a else text_min b) (msg_min code r v)
  end.

(* least version at which the check can fire, never below 3.7 *)
Fixpoint lowest (gs : list gate) : nat :=
  match gs with
  | [] => 7
  | ReturnBelow n :: r => Nat.max n (lowest r)
  | Switch _ _ _ :: r => lowest r
  end.

Fixpoint switches_ok (gs : list gate) (T : nat) : bool :=
  match gs with
  | [] => true
  | ReturnBelow _ :: r => switches_ok r T
  | Switch n a b :: r => Nat.leb (text_min b) T && Nat.leb (text_min a) (Nat.max n T) && switches_ok r T
  end.

Definition gate_ok (cg : N * list gate) : bool :=
  Nat.leb (base_min (fst cg)) (lowest (snd cg)) && switches_ok (snd cg) (lowest (snd cg)).

Lemma fires_lowest gs v : 7 <= v -> fires gs v = true -> lowest gs <= v.
Proof.
  intros Hv. induction gs as [|g r IH]; simpl; [lia|].
  destruct g as [n|n a b]; [|exact IH].
  intros H. apply andb_true_iff in H as [H1 H2]. apply Nat.leb_le in H1. specialize (IH H2). lia.
Qed.

Lemma msg_min_bound code gs v T :
  base_min code <= T -> T <= v -> switches_ok gs T = true -> msg_min code gs v <= v.
Proof.
  intros Hb HT. induction gs as [|g r IH]; simpl; [lia|].
  destruct g as [n|n a b]; [exact IH|].
  intros H. apply andb_true_iff in H as [H H3]. apply andb_true_iff in H as [H1 H2].
  apply Nat.leb_le in H1, H2. specialize (IH H3).
  destruct (Nat.leb n v) eqn:E; [apply Nat.leb_le in E|]; lia.
Qed.

Theorem never_too_new_generic (table : list (N * list gate)) :
  forallb gate_ok table = true ->
  forall code gs v, In (code, gs) table -> 7 <= v -> fires gs v = true -> msg_min code gs v <= v.
Proof.
  intros Hall code gs v Hin Hv Hf.
  pose proof (forallb_In _ _ Hall _ Hin) as Hok. unfold gate_ok in Hok; simpl in Hok.
  apply andb_true_iff in Hok as [H1 H2]. apply Nat.leb_le in H1.
  apply (msg_min_bound code gs v (lowest gs)); auto using fires_lowest.
Qed.

Theorem fires_monotone gs v v' : v <= v' -> fires gs v = true -> fires gs v' = true.
Proof.
  intros Hv. induction gs as [|g r IH]; simpl; [auto|].
  destruct g as [n|n a b]; [|exact IH].
  intros H. apply andb_true_iff in H as [H1 H2]. apply Nat.leb_le in H1.
  apply andb_true_iff. split; [apply Nat.leb_le; lia|auto].
Qed.

(* raising the target only ever moves a message to its newer spelling *)
Fixpoint variants (gs : list gate) (v : nat) : list bool :=
  match gs with
  | [] => []
  | ReturnBelow _ :: r => variants r v
  | Switch n _ _ :: r => Nat.leb n v :: variants r v
  end.

Theorem switch_only_upgrades gs v v' : v <= v' ->
  Forall2 (fun b b' => b = true -> b' = true) (variants gs v) (variants gs v').
Proof.
  intros Hv. induction gs as [|g r IH]; simpl; [constructor|].
  destruct g as [n|n a b]; [exact IH|]. constructor; [|exact IH].
  intros H. apply Nat.leb_le in H. apply Nat.leb_le. lia.
Qed.
