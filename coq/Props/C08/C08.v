(* C08 — `# noqa` suppresses exactly the named diagnostics on its own line.
   Lib/Noqa.v is the hand-written model (tied by the correspondence check each run). *)
From Lib Require Import Base Noqa NoqaAppend.
Open Scope list_scope.

(* suppression of a diagnostic depends on the physical line it names and nothing else *)
Theorem noqa_local : forall (c1 c2 : text) (line : nat) (code : text),
  nth_error (source_lines c1) (pred line) = nth_error (source_lines c2) (pred line) ->
  ignored_via_comment c1 line code = ignored_via_comment c2 line code.
Proof. exact noqa_is_local. Qed.
Print Assumptions noqa_local.

(* `# noqa: A, B`: exactly the listed tokens *)
Theorem noqa_some : forall (line codes code : text),
  search (rstrip line) = Some (Some codes) -> ignored_on_line line code = existsb (text_eqb code) (split_sp codes).
Proof. exact noqa_codes_exact. Qed.
Print Assumptions noqa_some.

(* bare `# noqa`: everything on the line *)
Theorem noqa_all : forall (line code : text), search (rstrip line) = Some None -> ignored_on_line line code = true.
Proof. exact noqa_bare_all. Qed.
Print Assumptions noqa_all.

(* appending `  # noqa` to any line of code that has no hash character removes every
   diagnostic on it; appending `  # noqa: A, B, ...` removes exactly the listed codes *)
Theorem noqa_all_appended : forall (L code : text), no_hash L = true -> ignored_on_line (L ++ suffix_all) code = true.
Proof. exact noqa_all_appended_all. Qed.
Print Assumptions noqa_all_appended.

Theorem noqa_some_appended : forall (L code : text) (cs : list text),
  no_hash L = true -> tok code = true -> forallb tok cs = true -> cs <> [] ->
  ignored_on_line (L ++ suffix_some ++ join_cs cs) code = existsb (text_eqb code) cs.
Proof. exact noqa_some_appended_all. Qed.
Print Assumptions noqa_some_appended.

(* text in front of the comment that contains no hash cannot change what is matched *)
Theorem code_before_comment_irrelevant : forall (p s : text), no_hash p = true -> search (p ++ s) = search s.
Proof. exact search_no_hash_prefix. Qed.
Print Assumptions code_before_comment_irrelevant.

(* line identity: only LF / CRLF / CR end a line -- a form feed or U+2028 inside a literal does not *)
Example exotic_separators_do_not_split :
  source_lines [97; 12; 98; 8232; 99; 10; 100]%N = [[97; 12; 98; 8232; 99]; [100]]%N
  /\ source_lines [97; 13; 10; 98; 13; 99]%N = [[97]; [98]; [99]]%N.
Proof. split; reflexivity. Qed.
Print Assumptions exotic_separators_do_not_split.

Example noqa_examples :
  ignored_on_line [120; 32; 32; 35; 32; 110; 111; 113; 97]%N [70]%N = true                       (* x  # noqa *)
  /\ ignored_on_line [120; 32; 35; 32; 110; 111; 113; 97; 58; 32; 65; 44; 32; 66]%N [66]%N = true    (* x # noqa: A, B  -> B *)
  /\ ignored_on_line [120; 32; 35; 32; 110; 111; 113; 97; 58; 32; 65; 44; 32; 66]%N [67]%N = false.  (* ... -> C *)
Proof. repeat split; reflexivity. Qed.
Print Assumptions noqa_examples.
