(* C08 — `# noqa` suppresses exactly the named diagnostics on its own line.
   Lib/Noqa.v is the hand-written model (tied by the correspondence check each run). *)
From Lib Require Import Base Noqa NoqaAppend.
Open Scope list_scope.

(* suppression of a diagnostic depends on the physical line it names and nothing else *)
Theorem noqa_local : forall (c1 c2 : text) (line : nat) (code : text),
  nth_error (source_lines c1) (pred line) = nth_error (source_lines c2) (pred line) ->
  ignored_via_comment c1 line code = ignored_via_comment c2 line code.
Proof. exact noqa_is_local. Qed.
Print Assumptions noqa_local.

(* a diagnostic is suppressed exactly when one of the comments of its line, from the first hash-noqa
   with no quote after it on, is a bare noqa or a noqa that lists its code *)
Theorem noqa_exact : forall (line code : text),
  ignored_on_line line code = true <->
  exists tail c, search (rstrip line) = Some tail /\ In c (split_hash tail) /\
    (strip c = noqa_word \/ exists codes, strip c = noqa_colon ++ codes /\ In code (split_sp codes)).
Proof. exact ignored_iff. Qed.
Print Assumptions noqa_exact.

(* appending `  # noqa` to ANY line -- whatever code, quotes, hash signs, earlier comments or earlier
   noqa comments it holds -- removes every diagnostic on it *)
Theorem noqa_all_appended : forall (L code : text), ignored_on_line (L ++ suffix_all) code = true.
Proof. exact noqa_all_appended_all. Qed.
Print Assumptions noqa_all_appended.

(* appending `  # noqa: A, B, ...` to ANY line removes exactly the listed codes and leaves every other
   verdict on that line as it was (what an earlier comment suppressed stays suppressed) *)
Theorem noqa_some_appended : forall (L code : text) (cs : list text),
  tok code = true -> forallb tok cs = true -> cs <> [] ->
  ignored_on_line (L ++ suffix_some ++ join_cs cs) code = (ignored_on_line L code || existsb (text_eqb code) cs)%bool.
Proof. exact noqa_some_appended_all. Qed.
Print Assumptions noqa_some_appended.

(* text in front of the comment that contains no hash cannot change what is matched *)
Theorem code_before_comment_irrelevant : forall (p s : text), no_hash p = true -> search (p ++ s) = search s.
Proof. exact search_no_hash_prefix. Qed.
Print Assumptions code_before_comment_irrelevant.

(* line identity: only LF / CRLF / CR end a line -- a form feed or U+2028 inside a literal does not *)
Example exotic_separators_do_not_split :
  source_lines [97; 12; 98; 8232; 99; 10; 100]%N = [[97; 12; 98; 8232; 99]; [100]]%N
  /\ source_lines [97; 13; 10; 98; 13; 99]%N = [[97]; [98]; [99]]%N.
Proof. split; reflexivity. Qed.
Print Assumptions exotic_separators_do_not_split.

(* lines that already carry a noqa comment for someone else: `x  # noqa: E501  # noqa` and
   `x  # noqa  # noqa: E501` (the shapes a leftmost-match-only reading gets wrong) *)
Example several_comments :
  ignored_on_line [120; 32; 32; 35; 32; 110; 111; 113; 97; 58; 32; 69; 53; 48; 49; 32; 32; 35; 32; 110; 111; 113; 97]%N [70]%N = true
  /\ ignored_on_line [120; 32; 32; 35; 32; 110; 111; 113; 97; 32; 32; 35; 32; 110; 111; 113; 97; 58; 32; 69; 53; 48; 49]%N [70]%N = true
  /\ ignored_on_line [120; 32; 32; 35; 32; 110; 111; 113; 97; 58; 32; 69; 53; 48; 49]%N [70]%N = false.
Proof. repeat split; reflexivity. Qed.
Print Assumptions several_comments.

Example noqa_examples :
  ignored_on_line [120; 32; 32; 35; 32; 110; 111; 113; 97]%N [70]%N = true                       (* x  # noqa *)
  /\ ignored_on_line [120; 32; 35; 32; 110; 111; 113; 97; 58; 32; 65; 44; 32; 66]%N [66]%N = true    (* x # noqa: A, B  -> B *)
  /\ ignored_on_line [120; 32; 35; 32; 110; 111; 113; 97; 58; 32; 65; 44; 32; 66]%N [67]%N = false.  (* ... -> C *)
Proof. repeat split; reflexivity. Qed.
Print Assumptions noqa_examples.
