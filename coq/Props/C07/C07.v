(* C07 — reported positions are real token positions.  GenPositions.v is regenerated from
   every ErrorInfo(...) built with an explicit line/column (all other diagnostics copy the
   node's position with Error.from_node); Lib/Layout.v holds the layout algebra. *)
From Coq Require Import ZArith Lia Bool.
From Lib Require Import Layout.
From P Require Import GenPositions.
Open Scope Z_scope.

(* FURB106: every layout of the member expression, any number of lines *)
Theorem furb106_position : forall l, reported_106_src l = (name_line l, name_col l).
Proof. intros l. unfold reported_106_src, uses_end_line_106, offset_106, member_end. simpl. f_equal. lia. Qed.
Print Assumptions furb106_position.

(* FURB180: the keyword's own position when `metaclass=X` is written without blanks on one line *)
Theorem furb180_position_guarded : forall l, kw_adjacent l -> reported_180_src l = (kw_line l, kw_col l).
Proof.
  intros l (H1 & H2 & H3). unfold reported_180_src, offset_180, arg_pos. rewrite H1, H2, H3. simpl. f_equal. lia.
Qed.
Print Assumptions furb180_position_guarded.

(* every renderer shows column + 1: never zero-based, never below 1 for a real column *)
Theorem rendered_col_1based : forall col : Z, 0 <= col -> 1 <= col + 1.
Proof. exact shown_column_is_one_based. Qed.
Print Assumptions rendered_col_1based.

Example adjacent_layout_exists :
  kw_adjacent {| kw_line := 6; kw_col := 9; gap1 := 0; gap2 := 0; split := false; arg_line := 0; arg_col := 0 |}.
Proof. repeat split. Qed.
Print Assumptions adjacent_layout_exists.
