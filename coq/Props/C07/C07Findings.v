(* C07 — the full-strength statement for FURB180 is false of the code as written. *)
From Coq Require Import ZArith Lia Bool.
From Lib Require Import Layout.
From P Require Import GenPositions.
Open Scope Z_scope.

Lemma furb180_position_refuted_inside_token :
  exists l, split l = false /\ 0 <= gap1 l /\ 0 <= gap2 l /\ kw_col l < snd (reported_180_src l) < kw_col l + 9.
Proof.
  exists {| kw_line := 10; kw_col := 9; gap1 := 1; gap2 := 1; split := false; arg_line := 0; arg_col := 0 |}.
  vm_compute. repeat split; congruence.
Qed.
Print Assumptions furb180_position_refuted_inside_token.

Lemma furb180_position_refuted_negative : exists l, 0 <= arg_col l /\ snd (reported_180_src l) < 0.
Proof.
  exists {| kw_line := 25; kw_col := 4; gap1 := 0; gap2 := 0; split := true; arg_line := 27; arg_col := 4 |}.
  vm_compute. split; congruence.
Qed.
Print Assumptions furb180_position_refuted_negative.
