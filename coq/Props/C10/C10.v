(* C10 — checks do not interfere: any selection's output is a filter of the full output.
   GenEffects.v is the effect summary regenerated from every check module on each run. *)
From Lib Require Import Base Run Effects.
From P Require Import GenEffects.
Open Scope list_scope.

(* every check fits the run model: private state only, own error class only, no writes
   another check can observe *)
Theorem effects_admissible : effects_ok effects = true.
Proof. vm_compute. reflexivity. Qed.
Print Assumptions effects_admissible.

(* for every program (visit sequence), every catalogue of checks with private state and
   every selection: running the selected checks alone gives exactly the selected
   diagnostics of the full run, in the same order *)
Theorem selection_is_filter : forall (node S msg : Type) (sel : nat -> bool) (nodes : list node) (cs : list (check node S msg)),
  run node S msg nodes (filter (fun c => sel (c_id node S msg c)) cs)
  = filter (keep msg sel) (run node S msg nodes cs).
Proof. intros. apply selection_is_filter_all. Qed.
Print Assumptions selection_is_filter.

(* non-vacuity: two stateful checks (one remembers what it saw), a selection of one *)
Example run_example :
  let ck1 := {| c_id := 1; c_init := 0; c_step := fun (n : nat) (s : nat) => (if Nat.eqb n s then [n] else [], n) |} in
  let ck2 := {| c_id := 2; c_init := 0; c_step := fun (n : nat) (s : nat) => ([n + s], s + 1) |} in
  run nat nat nat [3; 3; 5] [ck1; ck2] = [(2, 3); (1, 3); (2, 4); (2, 7)]
  /\ run nat nat nat [3; 3; 5] (filter (fun c => Nat.eqb (c_id nat nat nat c) 1) [ck1; ck2]) = [(1, 3)].
Proof. vm_compute. split; reflexivity. Qed.
Print Assumptions run_example.
