(* C10 — shared helpers hold no state (GenEffects.v: helper_state is regenerated from every module of
   refurb outside the check modules and main.py on each run). *)
From Lib Require Import Base.
From P Require Import GenEffects.
Open Scope list_scope.

(* the helpers every check calls into (refurb/checks/common.py, the visitor, the loader, settings) keep
   nothing between two calls: no memoised function, no module-level container that a function mutates.
   A check therefore cannot learn through them what another check did before it. *)
Theorem helpers_share_no_state : helper_state = [].
Proof. reflexivity. Qed.
Print Assumptions helpers_share_no_state.

