(* C10 — from the visitor runs to what is printed.  GenReport.v (regenerated each run) records what run_refurb does
   with the list of collected diagnostics: it must be "append each file's diagnostics; filter one by one with
   should_ignore_error; sort" and nothing else.  For that pipeline the report of a selection is the selection of
   the full report, whatever the programs, checks and selection are. *)
From Lib Require Import Base Sort Run Report.
From P Require Import GenReport.
Open Scope list_scope.

(* run_refurb touches the collected list only to append, to filter per element and to sort *)
Theorem report_pipeline_is_filter_then_sort :
  errors_uses = [ "errors: list[Error | str] = []"; "errors.append(str(tree))"; "errors += visitor.errors";
                  "return sorted([error for error in errors if not should_ignore_error(error, settings)], key=partial(sort_errors, settings=settings))" ]%string.
Proof. reflexivity. Qed.
Print Assumptions report_pipeline_is_filter_then_sort.

(* and should_ignore_error looks at the diagnostic it is given (and the settings), not at the other diagnostics *)
Theorem ignore_test_is_per_diagnostic :
  should_ignore_shape = "isinstance(error, str) -> False | not error.filename or is_ignored_via_comment(error) or is_ignored_via_amend(error, settings)"%string.
Proof. reflexivity. Qed.
Print Assumptions ignore_test_is_per_diagnostic.

Theorem whole_run_selection :
  forall (node S msg : Type) (leb : nat * msg -> nat * msg -> bool),
    (forall a b, leb a b = true \/ leb b a = true) ->
    (forall a b c, leb a b = true -> leb b c = true -> leb a c = true) ->
  forall (ignored : nat * msg -> bool) (sel : nat -> bool) (nodes : list node) (cs : list (check node S msg)),
    report (nat * msg) leb ignored (run node S msg nodes (filter (fun c => sel (c_id node S msg c)) cs))
    = filter (keep msg sel) (report (nat * msg) leb ignored (run node S msg nodes cs)).
Proof.
  intros node S msg leb T Tr ignored sel nodes cs.
  rewrite selection_is_filter_all. apply selection_commutes_with_report; assumption.
Qed.
Print Assumptions whole_run_selection.
