(* C06 — statements of the full-strength property that are false of the faithful model
   (witnesses replayed on the real code by the harness).  Built non-fatally. *)
From Lib Require Import Base PyAst Equiv.
From P Require Import GenEquiv.
Open Scope list_scope.

(* an import alias resolves to the same fullname under a different spelling *)
Lemma is_equiv_refuted_alias :
  exists a b, syn a <> syn b /\ is_equiv a b = true.
Proof. exists (EName "os" "os"), (EName "o2" "os"). split; [discriminate|reflexivity]. Qed.
Print Assumptions is_equiv_refuted_alias.

(* classes without an explicit case are compared through a rendering that embeds the
   line number: the same text on two lines is not recognised as the same *)
Lemma is_equiv_refuted_multiline :
  is_equiv (EOpaque "ConditionalExpr" 1 "ConditionalExpr:1(...)")
           (EOpaque "ConditionalExpr" 2 "ConditionalExpr:2(...)") = false.
Proof. vm_compute. reflexivity. Qed.
Print Assumptions is_equiv_refuted_multiline.
