(* C06 — "same expression" diagnostics fire only when the operands really are the same.
   is_equiv is regenerated from refurb/checks/common.py:is_equivalent on every run
   (GenEquiv.v); syn is the syntactic projection (Lib/Equiv.v); guard is what mypy
   guarantees for analysed, reachable code. *)
From Lib Require Import Base PyAst Equiv.
From P Require Import GenEquiv C06Proofs.
Open Scope list_scope.

(* any two expressions, any depth: equivalent operands have the same syntax *)
Theorem is_equiv_sound :
  forall a b, guard a = true -> guard b = true -> is_equiv a b = true -> syn a = syn b.
Proof. exact is_equiv_sound_all. Qed.
Print Assumptions is_equiv_sound.

(* an operand is equivalent to itself, whatever it is *)
Theorem is_equiv_refl : forall a, is_equiv a a = true.
Proof. exact is_equiv_refl_all. Qed.
Print Assumptions is_equiv_refl.

(* the single-edit mutants of the property statement, as corollaries *)
Corollary differing_operator_never_same :
  forall op1 op2 l r, op1 <> op2 -> guard (EOp op1 l r) = true -> guard (EOp op2 l r) = true ->
    is_equiv (EOp op1 l r) (EOp op2 l r) = false.
Proof.
  intros op1 op2 l r Hne G1 G2. destruct (is_equiv _ _) eqn:E; [|reflexivity].
  apply is_equiv_sound in E; auto. simpl in E. congruence.
Qed.
Print Assumptions differing_operator_never_same.

Corollary differing_attribute_never_same :
  forall e n1 n2 f1 f2, n1 <> n2 -> guard e = true ->
    is_equiv (EMember e n1 f1) (EMember e n2 f2) = false.
Proof.
  intros e n1 n2 f1 f2 Hne G. destruct (is_equiv _ _) eqn:E; [|reflexivity].
  apply is_equiv_sound in E; auto. simpl in E. congruence.
Qed.
Print Assumptions differing_attribute_never_same.

Corollary differing_arity_never_same :
  forall c a1 a2, List.length a1 <> List.length a2 -> guard (ECall c a1) = true -> guard (ECall c a2) = true ->
    is_equiv (ECall c a1) (ECall c a2) = false.
Proof.
  intros c a1 a2 Hne G1 G2. destruct (is_equiv _ _) eqn:E; [|reflexivity].
  apply is_equiv_sound in E; auto. simpl in E. inversion E as [[E1]].
  apply (f_equal (@List.length _)) in E1. rewrite !map_length in E1. congruence.
Qed.
Print Assumptions differing_arity_never_same.

Corollary differing_argkind_or_keyword_never_same :
  forall c k1 n1 k2 n2 x, (k1, n1) <> (k2, n2) -> guard (ECall c [(k1, n1, x)]) = true ->
    guard (ECall c [(k2, n2, x)]) = true -> is_equiv (ECall c [(k1, n1, x)]) (ECall c [(k2, n2, x)]) = false.
Proof.
  intros c k1 n1 k2 n2 x Hne G1 G2. destruct (is_equiv _ _) eqn:E; [|reflexivity].
  apply is_equiv_sound in E; auto. simpl in E. congruence.
Qed.
Print Assumptions differing_argkind_or_keyword_never_same.

Corollary differing_int_literal_never_same :
  forall a b, a <> b -> is_equiv (EInt a) (EInt b) = false.
Proof.
  intros a b Hne. destruct (is_equiv _ _) eqn:E; [|reflexivity].
  apply is_equiv_sound in E; auto. simpl in E. inversion E as [[E1]].
  apply (f_equal (fun s => ("IntExpr(" ++ s)%string)) in E1.
  exfalso. apply Hne. apply int_render_inj. exact E1.
Qed.
Print Assumptions differing_int_literal_never_same.

(* non-vacuity: a nested, guarded expression *)
Example guarded_example :
  let e := ECall (EMember (EName "os" "os") "getcwd" "os.getcwd")
                 [(ARG_POS, None, EOp "+" (EName "x" "m.x") (EInt 1)); (ARG_NAMED, Some "k", EStr [97%N])] in
  guard e = true /\ is_equiv e e = true.
Proof. vm_compute. split; reflexivity. Qed.
Print Assumptions guarded_example.
