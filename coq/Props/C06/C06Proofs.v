(* Soundness and reflexivity of the generated is_equiv.  The proofs use only the
   generated per-case equations (is_equiv_<Ctor>, is_equiv_fallback), so a change of a
   case of the source function breaks exactly the corresponding step. *)
From Lib Require Import Base PyAst Equiv.
From P Require Import GenEquiv.
Open Scope list_scope.
Local Notation length := List.length.
Arguments String.eqb : simpl never.

Definition sound_at (x : expr) : Prop :=
  forall b, guard x = true -> guard b = true -> is_equiv x b = true -> syn x = syn b.

(* ---- guards of containers as forallb ---- *)
Lemma guard_EList l : guard (EList l) = forallb guard l.
Proof. induction l as [|x r IH]; [reflexivity|]. simpl in *. now rewrite IH. Qed.
Lemma guard_ETuple l : guard (ETuple l) = forallb guard l.
Proof. induction l as [|x r IH]; [reflexivity|]. simpl in *. now rewrite IH. Qed.
Lemma guard_ESet l : guard (ESet l) = forallb guard l.
Proof. induction l as [|x r IH]; [reflexivity|]. simpl in *. now rewrite IH. Qed.
Lemma guard_ECmp ops l : guard (ECmp ops l) = Nat.eqb (length l) (S (length ops)) && forallb guard l.
Proof.
  assert (H : forall l, (fix all (l : list expr) : bool := match l with [] => true | x :: r => guard x && all r end) l
                        = forallb guard l).
  { clear. induction l as [|x r IH]; [reflexivity|]. simpl. now rewrite IH. }
  simpl. now rewrite H.
Qed.
Definition guard_opt (o : option expr) := match o with Some x => guard x | None => true end.
Lemma guard_EDict l : guard (EDict l) = forallb (fun kv => guard_opt (fst kv) && guard (snd kv)) l.
Proof. induction l as [|[k v] r IH]; [reflexivity|]. simpl in *. now rewrite IH. Qed.
Lemma guard_ECall c args : guard (ECall c args) = guard c && forallb (fun a => guard (snd a)) args.
Proof.
  simpl. f_equal. induction args as [|[p x] r IH]; [reflexivity|]. simpl. now rewrite IH.
Qed.

(* ---- list combinators ---- *)
Lemma all_zip_sound l :
  Forall sound_at l -> forall l0, length l = length l0 ->
  forallb guard l = true -> forallb guard l0 = true ->
  all_zip_of is_equiv l l0 = true -> map syn l = map syn l0.
Proof.
  induction 1 as [|x r Hx Hr IH]; intros [|y r0] Hlen G G0 H; simpl in *; try discriminate; [reflexivity|].
  apply andb_true_iff in G as [Gx Gr], G0 as [Gy Gr0], H as [Hxy Hrr].
  f_equal; [now apply Hx|apply IH; auto].
Qed.

Lemma opt_equiv_sound o1 o2 :
  Popt sound_at o1 -> guard_opt o1 = true -> guard_opt o2 = true ->
  opt_equiv_of is_equiv o1 o2 = true ->
  match o1 with Some x => Some (syn x) | None => None end = match o2 with Some x => Some (syn x) | None => None end.
Proof.
  destruct o1 as [x|], o2 as [y|]; simpl; intros HP G1 G2 H; try reflexivity.
  - f_equal. now apply HP.
  - (* str(x) == "None": impossible for a guarded node *)
    exfalso. apply String.eqb_eq in H. destruct x; simpl in H, G1; try discriminate.
    apply andb_true_iff in G1 as [_ G1]. rewrite H in G1. discriminate.
  - exfalso. apply String.eqb_eq in H. destruct y; simpl in H, G2; try discriminate.
    apply andb_true_iff in G2 as [_ G2]. rewrite <- H in G2. discriminate.
Qed.

Lemma all_zip_dict_sound l :
  Forall (fun kv => Popt sound_at (fst kv) /\ sound_at (snd kv)) l -> forall l0, length l = length l0 ->
  forallb (fun kv => guard_opt (fst kv) && guard (snd kv)) l = true ->
  forallb (fun kv => guard_opt (fst kv) && guard (snd kv)) l0 = true ->
  all_zip_dict_of is_equiv l l0 = true ->
  map (fun kv => (match fst kv with Some x => Some (syn x) | None => None end, syn (snd kv))) l
  = map (fun kv => (match fst kv with Some x => Some (syn x) | None => None end, syn (snd kv))) l0.
Proof.
  induction 1 as [|[k v] r [Hk Hv] Hr IH]; intros [|[k0 v0] r0] Hlen G G0 H; simpl in *; try discriminate; [reflexivity|].
  apply andb_true_iff in G as [G Gr], G0 as [G0 Gr0].
  apply andb_true_iff in G as [Gk Gv], G0 as [Gk0 Gv0].
  apply andb_true_iff in H as [H Hrr]. apply andb_true_iff in H as [Hkk Hvv].
  f_equal; [|apply IH; auto]. f_equal; [now apply opt_equiv_sound|now apply Hv].
Qed.

Lemma all_zip_args_sound l :
  Forall (fun a => sound_at (snd a)) l -> forall l0,
  map (fun a => fst (fst a)) l = map (fun a => fst (fst a)) l0 ->
  map (fun a => snd (fst a)) l = map (fun a => snd (fst a)) l0 ->
  forallb (fun a => guard (snd a)) l = true -> forallb (fun a => guard (snd a)) l0 = true ->
  all_zip_args_of is_equiv l l0 = true ->
  map (fun a => (fst a, syn (snd a))) l = map (fun a => (fst a, syn (snd a))) l0.
Proof.
  induction 1 as [|[[k n] x] r Hx Hr IH]; intros [|[[k0 n0] y] r0] Hk Hn G G0 H; simpl in *; try discriminate; [reflexivity|].
  inversion Hk; inversion Hn; subst.
  apply andb_true_iff in G as [Gx Gr], G0 as [Gy Gr0], H as [Hxy Hrr].
  f_equal; [f_equal; now apply Hx|apply IH; auto].
Qed.

(* ---- identifiers are untouched by unmangle_name and have a single component ---- *)
Lemma no_special_in c s : no_special s = true -> str_in c "'*." = true -> str_in c s = false.
Proof.
  induction s as [|d r IH]; simpl; intros H Hc; [reflexivity|].
  apply andb_true_iff in H as [H1 H2]. rewrite (IH H2 Hc), orb_false_r.
  destruct (Ascii.eqb c d) eqn:E; [|reflexivity]. apply Ascii.eqb_eq in E. subst d.
  rewrite Hc in H1. discriminate.
Qed.

Lemma unmangle_ident s : no_special s = true -> unmangle s = s.
Proof.
  unfold unmangle. induction s as [|c r IH]; simpl; intros H; [reflexivity|].
  apply andb_true_iff in H as [H1 H2]. rewrite (IH H2).
  destruct r; [|reflexivity].
  apply negb_true_iff in H1. simpl in H1. apply orb_false_iff in H1 as [A H1]. apply orb_false_iff in H1 as [B _].
  now rewrite A, B.
Qed.

Lemma last_component_ident s : no_special s = true -> last_component s = s.
Proof.
  destruct s as [|c r]; simpl; intros H; [reflexivity|].
  apply andb_true_iff in H as [H1 H2].
  rewrite (no_special_in "."%char r H2 eq_refl).
  destruct (Ascii.eqb c "."%char) eqn:E; [|reflexivity].
  apply Ascii.eqb_eq in E. subst c. simpl in H1. discriminate.
Qed.

Lemma name_sound n1 f1 n2 f2 :
  name_resolved n1 f1 = true -> name_resolved n2 f2 = true ->
  unmangle (str_or f1 n1) = unmangle (str_or f2 n2) -> n1 = n2.
Proof.
  unfold name_resolved, ident, str_or. intros G1 G2 E.
  apply andb_true_iff in G1 as [I1 G1], G2 as [I2 G2].
  apply andb_true_iff in I1 as [_ I1], I2 as [_ I2].
  destruct (String.eqb f1 "") eqn:E1, (String.eqb f2 "") eqn:E2; simpl in G1, G2.
  - rewrite !unmangle_ident in E by assumption. exact E.
  - apply String.eqb_eq in G2. rewrite unmangle_ident in E by assumption.
    rewrite G2, <- E. symmetry. now apply last_component_ident.
  - apply String.eqb_eq in G1. rewrite (unmangle_ident n2) in E by assumption.
    rewrite G1, E. now apply last_component_ident.
  - apply String.eqb_eq in G1, G2. now rewrite G1, G2, E.
Qed.

(* ---- the fallback: renderings of distinct classes differ; literals/opaque agree
   exactly when their renderings do ---- *)
Ltac fallback H Ga Gb :=
  rewrite is_equiv_fallback in H by (simpl; first [left; reflexivity | right; discriminate]);
  apply String.eqb_eq in H;
  first
    [ discriminate H
    | simpl in H; discriminate H
    | (* both sides literal/opaque: equal renderings *)
      simpl; simpl in H; now rewrite H
    | (* a tagged rendering against an opaque text *)
      exfalso; simpl in H; simpl in Ga, Gb;
      first [ rewrite <- H in Gb; discriminate Gb | rewrite H in Ga; discriminate Ga
            | apply andb_true_iff in Gb as [Gb _]; rewrite <- H in Gb; discriminate Gb
            | apply andb_true_iff in Ga as [Ga _]; rewrite H in Ga; discriminate Ga ] ].

Theorem is_equiv_sound_all : forall a, sound_at a.
Proof.
  induction a using expr_ind'; intros rhs Ga Gb E;
    try (simpl in Ga; discriminate Ga).
  all: destruct rhs; try (simpl in Gb; discriminate Gb); try (fallback E Ga Gb).
  - (* Name *)
    rewrite is_equiv_EName in E. apply String.eqb_eq in E. simpl in Ga, Gb.
    simpl. f_equal. eapply name_sound; eassumption.
  - (* Member *)
    rewrite is_equiv_EMember in E. apply andb_true_iff in E as [E E3]. apply andb_true_iff in E as [E1 E2].
    apply String.eqb_eq in E1. simpl in Ga, Gb. simpl. subst. f_equal. now apply IHa.
  - (* Str *)
    rewrite is_equiv_EStr in E. apply (list_eqb_spec N.eqb N.eqb_eq) in E. now subst.
  - (* List *)
    rewrite is_equiv_EList in E. apply andb_true_iff in E as [E1 E2]. apply Nat.eqb_eq in E1.
    rewrite guard_EList in Ga, Gb. simpl. f_equal. now apply all_zip_sound.
  - rewrite is_equiv_ETuple in E. apply andb_true_iff in E as [E1 E2]. apply Nat.eqb_eq in E1.
    rewrite guard_ETuple in Ga, Gb. simpl. f_equal. now apply all_zip_sound.
  - rewrite is_equiv_ESet in E. apply andb_true_iff in E as [E1 E2]. apply Nat.eqb_eq in E1.
    rewrite guard_ESet in Ga, Gb. simpl. f_equal. now apply all_zip_sound.
  - (* Dict *)
    rewrite is_equiv_EDict in E. apply andb_true_iff in E as [E1 E2]. apply Nat.eqb_eq in E1.
    rewrite guard_EDict in Ga, Gb. simpl. f_equal. now apply all_zip_dict_sound.
  - (* Call *)
    rewrite is_equiv_ECall in E. apply andb_true_iff in E as [E E4]. apply andb_true_iff in E as [E E3].
    apply andb_true_iff in E as [E1 E2].
    apply (list_eqb_spec argkind_eqb argkind_eqb_spec) in E3.
    apply (list_eqb_spec (opt_eqb String.eqb)) in E4.
    2:{ intros [x|] [y|]; simpl; try rewrite String.eqb_eq; split; congruence. }
    rewrite guard_ECall in Ga, Gb. apply andb_true_iff in Ga as [Gc Gargs], Gb as [Gc0 Gargs0].
    simpl. f_equal; [now apply IHa|]. now apply all_zip_args_sound.
  - (* Index *)
    rewrite is_equiv_EIndex in E. apply andb_true_iff in E as [E1 E2]. simpl in Ga, Gb.
    apply andb_true_iff in Ga as [G1 G2], Gb as [G3 G4]. simpl. f_equal; [now apply IHa1|now apply IHa2].
  - (* Slice *)
    rewrite is_equiv_ESlice in E. apply andb_true_iff in E as [E E3]. apply andb_true_iff in E as [E1 E2].
    simpl in Ga, Gb. apply andb_true_iff in Ga as [Ga G3], Gb as [Gb G6].
    apply andb_true_iff in Ga as [G1 G2], Gb as [G4 G5].
    simpl. f_equal; now apply opt_equiv_sound.
  - (* Op *)
    rewrite is_equiv_EOp in E. apply andb_true_iff in E as [E E3]. apply andb_true_iff in E as [E1 E2].
    apply String.eqb_eq in E1. simpl in Ga, Gb. apply andb_true_iff in Ga as [G1 G2], Gb as [G3 G4].
    simpl. subst. f_equal; [now apply IHa1|now apply IHa2].
  - (* Comparison *)
    rewrite is_equiv_ECmp in E. apply andb_true_iff in E as [E1 E2].
    apply (list_eqb_spec String.eqb String.eqb_eq) in E1. subst.
    rewrite guard_ECmp in Ga, Gb. apply andb_true_iff in Ga as [L1 G1], Gb as [L2 G2].
    apply Nat.eqb_eq in L1, L2. simpl. f_equal. apply all_zip_sound; auto. congruence.
  - (* Unary *)
    rewrite is_equiv_EUnary in E. apply andb_true_iff in E as [E1 E2]. apply String.eqb_eq in E1.
    simpl in Ga, Gb. simpl. subst. f_equal. now apply IHa.
  - (* Star *)
    rewrite is_equiv_EStar in E. simpl in Ga, Gb. simpl. f_equal. now apply IHa.
Qed.

(* ---- reflexivity: an operand is always equivalent to itself ---- *)
Lemma all_zip_refl l : Forall (fun x => is_equiv x x = true) l -> all_zip_of is_equiv l l = true.
Proof. induction 1 as [|x r Hx Hr IH]; simpl; [reflexivity|]. now rewrite Hx, IH. Qed.

Theorem is_equiv_refl_all : forall a, is_equiv a a = true.
Proof.
  induction a using expr_ind';
    try (rewrite is_equiv_fallback by (left; reflexivity); apply String.eqb_refl).
  - rewrite is_equiv_EName. apply String.eqb_refl.
  - rewrite is_equiv_EMember. now rewrite !String.eqb_refl, IHa.
  - rewrite is_equiv_EStr. induction s as [|x r IH]; simpl; [reflexivity|]. now rewrite N.eqb_refl, IH.
  - rewrite is_equiv_EList. now rewrite Nat.eqb_refl, all_zip_refl.
  - rewrite is_equiv_ETuple. now rewrite Nat.eqb_refl, all_zip_refl.
  - rewrite is_equiv_ESet. now rewrite Nat.eqb_refl, all_zip_refl.
  - rewrite is_equiv_EDict. rewrite Nat.eqb_refl. simpl.
    induction H as [|[k v] r [Hk Hv] Hr IH]; simpl in *; [reflexivity|].
    rewrite Hv, IH, !andb_true_r. destruct k; simpl in *; auto.
  - rewrite is_equiv_ECall. rewrite IHa. simpl.
    assert (E1 : all_zip_args_of is_equiv args args = true).
    { induction H as [|[[k n] x] r Hx Hr IH]; simpl in *; [reflexivity|]. now rewrite Hx, IH. }
    rewrite E1. simpl.
    assert (E2 : forall l, list_eqb argkind_eqb l l = true).
    { induction l as [|x r IH]; simpl; [reflexivity|]. rewrite IH, andb_true_r. now destruct x. }
    assert (E3 : forall l, list_eqb (opt_eqb String.eqb) l l = true).
    { induction l as [|x r IH]; simpl; [reflexivity|]. rewrite IH, andb_true_r.
      destruct x; simpl; auto using String.eqb_refl. }
    now rewrite E2, E3.
  - rewrite is_equiv_EIndex. now rewrite IHa1, IHa2.
  - rewrite is_equiv_ESlice.
    repeat match goal with o : option expr |- _ => destruct o end;
      simpl in *; rewrite ?H, ?H0, ?H1; reflexivity.
  - rewrite is_equiv_EOp. now rewrite String.eqb_refl, IHa1, IHa2.
  - rewrite is_equiv_ECmp.
    assert (E : list_eqb String.eqb ops ops = true).
    { induction ops as [|x r IH]; simpl; [reflexivity|]. now rewrite String.eqb_refl, IH. }
    now rewrite E, all_zip_refl.
  - rewrite is_equiv_EUnary. now rewrite String.eqb_refl, IHa.
  - rewrite is_equiv_EStar. exact IHa.
Qed.
