(* C04 — derived (`analyzed`) nodes the visitor descends into have no children of
   their own: otherwise a syntactic child shared with the derived node (e.g. the base
   of a type application) would be handed to the checks twice. *)
From Lib Require Import Base.
From P Require Import GenVisitor.
Open Scope list_scope.

Theorem derived_nodes_are_leaves :
  forallb (fun d => let '(_, _, _, nchildren) := d in Nat.eqb nchildren 0) derived_tbl = true.
Proof. vm_compute. reflexivity. Qed.
Print Assumptions derived_nodes_are_leaves.
