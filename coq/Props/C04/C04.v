(* C04 — each occurrence is diagnosed exactly once, wherever it is nested.
   GenVisitor.v is regenerated on every run from refurb/visitor/{traverser,visitor,
   mapping}.py and from the installed mypy's own traverser/nodes sources. *)
From Lib Require Import Base Tree.
From P Require Import GenVisitor.
Open Scope list_scope.

Definition sched := tbl_sched sched_tbl.
Definition arity := tbl_arity arity_tbl.
Definition reg := tbl_reg reg_tbl.
Definition n_kinds := List.length kind_names.

(* (1) per kind, the effective visit schedule (TraverserVisitor method, RefurbVisitor
   override, inlined visit_func) touches every child field exactly once; the field
   list of a kind contains every child mypy's own traverser visits *)
Lemma tables_aligned : List.length sched_tbl = List.length arity_tbl /\ List.length sched_tbl = n_kinds
                       /\ List.length reg_tbl = n_kinds /\ List.length spec_tbl = n_kinds.
Proof. vm_compute. repeat split; reflexivity. Qed.

Theorem schedules_are_permutations : forall k, Permutation (sched k) (seq 0 (arity k)).
Proof.
  apply tbl_perm; [apply tables_aligned|]. vm_compute. reflexivity.
Qed.
Print Assumptions schedules_are_permutations.

Theorem spec_children_covered :
  forallb (fun k => forallb (fun f => memb Nat.eqb f (sched k)) (nth k spec_tbl [])) (seq 0 n_kinds) = true.
Proof. vm_compute. reflexivity. Qed.
Print Assumptions spec_children_covered.

(* (2) the visitor descends into nothing mypy does not regard as a child, except
   derived `analyzed` nodes *)
Theorem no_unknown_children : extra_fields = [].
Proof. reflexivity. Qed.
Print Assumptions no_unknown_children.

(* (3) every tree: one traversal reaches every node exactly once (any depth/width) *)
Theorem every_node_once :
  forall n, arity_ok arity n -> all_registered reg n ->
    exists l, visit (depth n) reg sched [] n = inr l
              /\ Permutation l (nodes [] n) /\ NoDup (map snd l).
Proof. exact (traversal_exactly_once arity reg sched schedules_are_permutations). Qed.
Print Assumptions every_node_once.

(* (4) which checks run on a node: exactly those subscribed to its class, plus the
   FuncItem subscribers on FuncItem subclasses; each once *)
Definition subscribable (name : string) : bool := memb String.eqb name (map snd mapping_tbl).

Definition expected_subs (name : string) : list string :=
  filter subscribable (if memb String.eqb name funcitem_kinds then [name; "FuncItem"] else [name]).

Definition subs_ok (k : nat) : bool :=
  if nth k reg_tbl false then
    list_eqb String.eqb (isort str_leb (nth k subs_tbl [])) (isort str_leb (expected_subs (nth k kind_names "")))
  else true.

Theorem subscription_exact : forallb subs_ok (seq 0 n_kinds) = true.
Proof. vm_compute. reflexivity. Qed.
Print Assumptions subscription_exact.

Theorem every_check_once :
  forall (subs : nat -> list string) n, arity_ok arity n -> all_registered reg n ->
    exists l, visit (depth n) reg sched [] n = inr l /\
      Permutation (calls string subs l) (calls string subs (nodes [] n)).
Proof.
  intros subs n Hok Hreg. destruct (every_node_once n Hok Hreg) as (l & Hv & HP & _).
  exists l. split; [exact Hv|]. now apply calls_perm.
Qed.
Print Assumptions every_check_once.

(* (5) accept() dispatches a node class to the method mypy names for it, and the
   wrapper generated for that method carries the checks of exactly that class *)
Definition dispatch_ok (d : string * string * string) : bool :=
  let '(cls, ref_m, mypy_m) := d in
  if String.eqb ref_m "" then true           (* unregistered kinds are C03's obligation *)
  else String.eqb ref_m mypy_m
       && match lookup String.eqb fst ref_m mapping_tbl with
          | Some (_, ty) => String.eqb ty cls
          | None => false
          end.

Theorem dispatch_agrees : forallb dispatch_ok dispatch_tbl = true.
Proof. vm_compute. reflexivity. Qed.
Print Assumptions dispatch_agrees.

(* non-vacuity: a concrete three-level tree satisfies the hypotheses *)
Example tree_ok : exists n, arity_ok arity n /\ all_registered reg n /\ depth n = 3.
Proof.
  (* MypyFile [ ExpressionStmt [ IntExpr ] ] *)
  pose (ki := fun s => (fix find i l := match l with [] => 0 | x :: r => if String.eqb x s then i else find (S i) r end) 0 kind_names).
  exists (Node (ki "MypyFile") [[Node (ki "ExpressionStmt") [[Node (ki "IntExpr") []]]]]).
  vm_compute. repeat split; reflexivity.
Qed.
Print Assumptions tree_ok.
