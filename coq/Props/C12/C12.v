(* C12 — per-path (amend) ignores cover exactly the files under that path.
   Lib/Paths.v is the hand-written model (symlink-free file system), tied to
   refurb.main.is_ignored_via_amend by the correspondence check on every run. *)
From Lib Require Import Base Select Paths.
Open Scope list_scope.

Theorem covered_iff_at_or_below : forall (entry file : list comp),
  is_prefix entry file = true <-> exists rest, file = entry ++ rest.
Proof. exact covered_iff_below. Qed.
Print Assumptions covered_iff_at_or_below.

Theorem by_components_not_string_prefix : forall (base : list comp) (d s f : string) (rest : list comp),
  s <> ""%string -> is_prefix (base ++ [d]) (base ++ (d ++ s)%string :: f :: rest) = false.
Proof. exact sibling_with_common_prefix_not_covered. Qed.
Print Assumptions by_components_not_string_prefix.

Theorem relative_to_config_not_cwd : forall cwd1 cwd2 cf ignores filename prefix id cats,
  is_abs cf = true -> is_abs filename = true ->
  ignored_via_amend cwd1 (Some cf) ignores filename prefix id cats
  = ignored_via_amend cwd2 (Some cf) ignores filename prefix id cats.
Proof. exact cwd_irrelevant_for_absolute_paths. Qed.
Print Assumptions relative_to_config_not_cwd.

Theorem dot_invariance : forall a b, norm (a ++ ["."%string] ++ b) = norm (a ++ b).
Proof. exact dot_segment_invariance. Qed.
Print Assumptions dot_invariance.

Theorem dotdot_invariance : forall a x b, String.eqb x ".." = false -> String.eqb x "." = false ->
  norm (a ++ [x; ".."%string] ++ b) = norm (a ++ b).
Proof. exact dotdot_detour_invariance. Qed.
Print Assumptions dotdot_invariance.

Theorem other_codes_and_elsewhere_untouched : forall cwd cf ignores filename prefix id cats,
  forallb (fun c => negb (entry_matches c prefix id cats)) ignores = true ->
  ignored_via_amend cwd cf ignores filename prefix id cats = false.
Proof. exact other_codes_untouched. Qed.
Print Assumptions other_codes_and_elsewhere_untouched.

Example amend_example :
  let cwd := ["home"; "u"; "proj"]%string in
  ignored_via_amend cwd (Some "conf/pyproject.toml"%string) [Code "FURB" 123 (Some "../src"%string)]
                    "src/pkg/a.py"%string "FURB"%string 123 [] = true
  /\ ignored_via_amend cwd (Some "conf/pyproject.toml"%string) [Code "FURB" 123 (Some "../src"%string)]
                    "src2/a.py"%string "FURB"%string 123 [] = false
  /\ ignored_via_amend cwd (Some "conf/pyproject.toml"%string) [Code "FURB" 123 (Some "src"%string)]
                    "src/a.py"%string "FURB"%string 123 [] = false.
Proof. vm_compute. repeat split; reflexivity. Qed.
Print Assumptions amend_example.
