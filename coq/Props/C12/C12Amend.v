(* C12 / C11 — is_ignored_via_amend as it is written in refurb/main.py today (GenAmend.v: the loop that files the
   path-scoped entries into two sets, translated statement by statement) refines the specification model of
   Lib/Paths.v (one existential over the entries), and therefore does not depend on the order in which the
   set `settings.ignore` happens to be iterated. *)
From Coq Require Import Permutation.
From Lib Require Import Base Select Paths GenTpl.
From P Require Import GenAmend.
Open Scope list_scope.
Open Scope bool_scope.

Section Refinement.
  Variable code_text : string -> N -> string.
  (* str(ErrorCode) determines the code: true when prefixes hold no digits (the parser's [A-Z]{3,4}) *)
  Hypothesis code_text_inj : forall p n p' n', code_text p n = code_text p' n' -> p = p' /\ n = n'.

  Lemma code_eqb p n p' n' : String.eqb (code_text p n) (code_text p' n') = (String.eqb p' p && N.eqb n' n).
  Proof.
    destruct (String.eqb_spec (code_text p n) (code_text p' n')) as [E|E].
    - apply code_text_inj in E as [-> ->]. now rewrite String.eqb_refl, N.eqb_refl.
    - destruct (String.eqb_spec p' p) as [->|]; [|reflexivity]. destruct (N.eqb_spec n' n) as [->|]; [congruence|reflexivity].
  Qed.

  Section Fixed.
    Variables (cwd : list comp) (cf : option string) (filename prefix : string) (id : N) (cats : list string).

    Definition root : string := match cf with Some f => parent_of f | None => "."%string end.
    Definition covers (c : cls) : bool :=
      match entry_path c with
      | Some p => is_prefix (resolve cwd (join_path root p)) (resolve cwd filename) && entry_matches c prefix id cats
      | None => false
      end.
    Definition verdict (acc : list string * list string) : bool :=
      existsb (String.eqb (code_text prefix id)) (fst acc) || existsb (fun c => existsb (String.eqb c) cats) (snd acc).

    Lemma step_verdict acc c :
      verdict (amend_step code_text cwd cf filename prefix id acc c) = verdict acc || covers c.
    Proof.
      destruct acc as [s0 s1]. unfold amend_step, covers, verdict. fold root.
      destruct c as [p n [pt|]|v [pt|]]; cbn [entry_path fst snd]; try now rewrite orb_false_r.
      - destruct (is_prefix _ _); cbn [fst snd existsb andb entry_matches]; [|now rewrite orb_false_r].
        rewrite code_eqb. destruct (String.eqb p prefix && N.eqb n id), (existsb (String.eqb (code_text prefix id)) s0),
          (existsb (fun c => existsb (String.eqb c) cats) s1); reflexivity.
      - destruct (is_prefix _ _); cbn [fst snd existsb andb entry_matches]; [|now rewrite orb_false_r].
        destruct (existsb (String.eqb v) cats), (existsb (String.eqb (code_text prefix id)) s0),
          (existsb (fun c => existsb (String.eqb c) cats) s1); reflexivity.
    Qed.

    Lemma fold_verdict ignores : forall acc,
      verdict (fold_left (amend_step code_text cwd cf filename prefix id) ignores acc) = verdict acc || existsb covers ignores.
    Proof.
      induction ignores as [|c r IH]; intros acc; cbn [fold_left existsb]; [now rewrite orb_false_r|].
      now rewrite IH, step_verdict, orb_assoc.
    Qed.
  End Fixed.

  (* the code is the specification: for every working directory, config location, entry list, file and diagnostic *)
  Theorem amend_translated_is_the_model : forall cwd cf ignores filename prefix id cats,
    amend_translated code_text cwd cf ignores filename prefix id cats = ignored_via_amend cwd cf ignores filename prefix id cats.
  Proof.
    intros. unfold amend_translated.
    pose proof (fold_verdict cwd cf filename prefix id cats ignores ([], [])) as H.
    destruct (fold_left _ ignores ([], [])) as [s0 s1]. unfold verdict in H. cbn [fst snd existsb orb] in H.
    rewrite H. unfold ignored_via_amend. reflexivity.
  Qed.

  (* ... so the answer does not depend on the order in which the entries are met (settings.ignore is a set) *)
  Theorem amend_order_irrelevant : forall cwd cf l l' filename prefix id cats, Permutation l l' ->
    amend_translated code_text cwd cf l filename prefix id cats = amend_translated code_text cwd cf l' filename prefix id cats.
  Proof.
    intros cwd cf l l' filename prefix id cats P. rewrite !amend_translated_is_the_model. unfold ignored_via_amend.
    induction P as [|x a b _ IH|x y a|a b c _ IH1 _ IH2]; cbn [existsb].
    - reflexivity.
    - now rewrite IH.
    - match goal with |- ?a || (?b || ?c) = ?b || (?a || ?c) => destruct a, b, c; reflexivity end.
    - now rewrite IH1.
  Qed.
End Refinement.
Print Assumptions amend_translated_is_the_model.
Print Assumptions amend_order_irrelevant.

(* the hypothesis is needed: a prefix that ends in digits makes two different codes print alike *)
Example code_text_needs_digit_free_prefixes :
  let code_text := fun (p : string) (n : N) => (p ++ N_to_dec n)%string in
  code_text "X1"%string 23%N = code_text "X"%string 123%N.
Proof. reflexivity. Qed.
Print Assumptions code_text_needs_digit_free_prefixes.
