(* C14 — CLI and config file are equivalent, merge as documented, and fail cleanly.
   Lib/Cli.v is the hand-written model of refurb/settings.py's parsers (tied by the
   correspondence check on every run); merge is regenerated from the source. *)
From Lib Require Import Base Select Cli.
From Lib Require Import CliTotal CliEquiv CliPosition.
From P Require Import GenSelect.
Open Scope list_scope.

(* any argument vector / any TOML document, ill-typed ones included: a Settings value
   or a ValueError (which main() prints as one line and turns into exit status 1) *)
Theorem cli_total : forall args, nocrash (parse_cli args).
Proof. exact cli_total_all. Qed.
Print Assumptions cli_total.

Theorem cfg_total : forall doc, nocrash (parse_cfg doc).
Proof. exact cfg_total_all. Qed.
Print Assumptions cfg_total.

(* an option in [tool.refurb] behaves like the same option on the command line; lists of
   any length *)
Theorem cfg_cli_equiv : forall d, wf_desc d = true ->
  exists s1 s2, parse_cli (to_cli d) = Ok s1 /\ parse_cfg (to_cfg d) = Ok s2 /\
    same_set (ignore s1) (ignore s2) /\ load s1 = load s2 /\
    same_set (enable s1) (enable s2) /\ same_set (disable s1) (disable s2) /\
    quiet s1 = quiet s2 /\ enable_all s1 = enable_all s2 /\ disable_all s1 = disable_all s2 /\
    python_version s1 = python_version s2 /\ format s1 = format s2 /\ sort_by s1 = sort_by s2 /\
    mypy_args s1 = mypy_args s2 /\ files s1 = ["f.py"%string] /\ files s2 = [].
Proof. exact cfg_cli_equiv_all. Qed.
Print Assumptions cfg_cli_equiv.

(* the file arguments may stand anywhere among complete options *)
Theorem files_position_independent : forall sgs f s, Forall seg_ok sgs -> is_file f ->
  fold_left cli_step (f :: List.concat sgs) (Ok (s, Normal)) = fold_left cli_step (List.concat sgs ++ [f]) (Ok (s, Normal)).
Proof. exact file_moves_across_options. Qed.
Print Assumptions files_position_independent.

(* the documented merge: list options are combined, booleans or-ed, scalars take the
   command-line value *)
Theorem merge_lists_concat : forall old new,
  files (merge old new) = files old ++ files new /\ load (merge old new) = load old ++ load new /\
  ignore (merge old new) = union (ignore old) (ignore new).
Proof. intros. repeat split; reflexivity. Qed.
Print Assumptions merge_lists_concat.

Theorem merge_bools_or : forall old new,
  quiet (merge old new) = (quiet old || quiet new)%bool /\ verbose (merge old new) = (verbose old || verbose new)%bool /\
  debug (merge old new) = (debug old || debug new)%bool /\ enable_all (merge old new) = (enable_all old || enable_all new)%bool /\
  disable_all (merge old new) = (disable_all old || disable_all new)%bool.
Proof. intros. repeat split; reflexivity. Qed.
Print Assumptions merge_bools_or.

Theorem merge_scalars_cli_wins : forall old new,
  python_version (merge old new) = or_opt (python_version new) (python_version old) /\
  format (merge old new) = or_opt (format new) (format old) /\ sort_by (merge old new) = or_opt (sort_by new) (sort_by old) /\
  mypy_args (merge old new) = or_list (mypy_args new) (mypy_args old).
Proof. intros. repeat split; reflexivity. Qed.
Print Assumptions merge_scalars_cli_wins.

Example desc_example :
  wf_desc {| d_ignore := ["FURB100"%string; "#readability"%string]; d_load := ["plugin"%string]; d_enable := ["120"%string];
             d_disable := ["ABC123"%string]; d_quiet := true; d_all := Some false |} = true.
Proof. vm_compute. reflexivity. Qed.
Print Assumptions desc_example.
