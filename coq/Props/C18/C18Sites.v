(* C18, continued: the path enumeration is complete; the only write sites. *)
From Lib Require Import Base Fs.
From P Require Import GenRun.
Open Scope list_scope.

(* the enumeration is not cut short *)
Theorem paths_within_fuel : forall timing,
  forallb (fun o => match o with Raised e _ => negb (String.eqb e "out-of-fuel") | _ => true end)
          (exec timing 60 run_refurb_prog false) = true.
Proof. intros [|]; vm_compute; reflexivity. Qed.
Print Assumptions paths_within_fuel.

(* the only file-system writes in refurb (outside `refurb gen`), with what each one writes to:
   the temp file it created itself and the --timing-stats path exactly as the user gave it *)
Theorem write_sites_confined :
  write_sites = ["refurb/main.py:mkstemp@"; "refurb/main.py:unlink@mypy_timing_stats"; "refurb/main.py:write_text@settings.timing_stats"]%string.
Proof. reflexivity. Qed.
Print Assumptions write_sites_confined.

(* non-vacuity: with --timing-stats the temp file does exist in the middle of the run *)
Example temp_exists_midway : exists o, In o (exec true 60 [CreateTemp; Call "build"] false) /\ temp_of o = true.
Proof. exists (Normal true). split; [vm_compute; auto|reflexivity]. Qed.
Print Assumptions temp_exists_midway.
