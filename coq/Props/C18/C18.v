(* C18 — refurb only reads; no temporary file survives a run.  GenRun.v is regenerated
   from refurb/main.py:run_refurb (its effect skeleton) and from every file-system write
   call in refurb/*.py. *)
From Lib Require Import Base Fs.
From P Require Import GenRun.
Open Scope list_scope.

(* on every outcome path of run_refurb (each call returning or raising anything it is
   known to raise; with and without --timing-stats) no temporary file is left behind *)
Theorem no_temp_left : forall timing o,
  In o (exec timing 60 run_refurb_prog false) -> temp_of o = false.
Proof.
  assert (H : all_paths_clean run_refurb_prog = true) by (vm_compute; reflexivity).
  intros timing o Hin. unfold all_paths_clean in H. rewrite forallb_forall in H.
  specialize (H timing ltac:(destruct timing; simpl; auto)). rewrite forallb_forall in H.
  specialize (H o Hin). now apply negb_true_iff in H.
Qed.
Print Assumptions no_temp_left.

