(* C03 (a), continued: None-guards and the constructive converse of dispatch_total. *)
From Lib Require Import Base Tree.
From P Require Import GenVisitor.
Open Scope list_scope.

Definition sched := tbl_sched sched_tbl.
Definition reg := tbl_reg reg_tbl.

(* an Optional child is never dereferenced without a None test *)
Theorem no_none_deref :
  forallb (fun g => let '(_, _, optional, guarded) := g in implb optional guarded) guard_tbl = true.
Proof. vm_compute. reflexivity. Qed.
Print Assumptions no_none_deref.

(* the converse, constructive: an unregistered kind gives a crashing tree *)
Theorem unregistered_kind_crashes :
  forall k, reg k = false -> visit 1 reg sched [] (Node k []) = inl (NoOverload k).
Proof. intros k H. now apply visit_unregistered. Qed.
Print Assumptions unregistered_kind_crashes.
