(* C03, exception routing.  GenRouting.v is regenerated from refurb's driver modules on every run
   (main, settings, loader, explain, error and the visitor package): per function the exception classes its own
   raise statements and the contract-raising library calls of a trusted table let out past its own
   handlers, and its calls to other driver functions with the handlers around each call.
   Lib/Routing.v computes what can reach main's caller and proves that the computation is
   complete once it has stopped growing. *)
From Lib Require Import Base Routing.
From P Require Import GenRouting.
Open Scope list_scope.
Open Scope string_scope.

Definition fuel : nat := 30.

(* What this summary cannot exclude, each for a stated reason:
   - the dispatcher's NotImplementedError for a node class without an overload: excluded by dispatch_total;
   - decoding errors when refurb re-reads a source file for `# noqa`: mypy has decoded the same bytes
     with the same declared encoding before any diagnostic exists, and reports a blocking error otherwise;
   - decoding errors when reading back the timing file mypy itself wrote. *)
Definition residual (e : exn) : bool :=
  let cls := hd "" (snd e) in
  (String.eqb cls "NotImplementedError" && String.prefix "raise NotImplementedError" (fst e))
  || (String.eqb (fst e) "tokenize.open()" && (String.eqb cls "SyntaxError" || String.eqb cls "UnicodeDecodeError"))
  || (String.eqb (fst e) "read_text()" && String.eqb cls "UnicodeDecodeError").

Theorem main_routes_every_exception :
  forall e, escapes direct_raises call_sites "refurb.main.main" e -> residual e = true.
Proof.
  apply (only_allowed_escape direct_raises call_sites functions fuel "refurb.main.main" residual); vm_compute; reflexivity.
Qed.
Print Assumptions main_routes_every_exception.

(* non-vacuity: something does escape the functions main calls, and main's handlers are what stops it *)
Example load_settings_raises : exists e, In e (reach direct_raises call_sites fuel "refurb.settings.load_settings") /\ hd "" (snd e) = "ValueError".
Proof. vm_compute. eexists. split; [left; reflexivity|reflexivity]. Qed.
