(* C03 (a) — the traversal itself never raises: every node class mypy can hand to a
   visitor has an accept() overload, optional children are tested before use, and so
   traversing any tree built from mypy's node classes returns normally. *)
From Lib Require Import Base Tree.
From P Require Import GenVisitor.
Open Scope list_scope.

Definition sched := tbl_sched sched_tbl.
Definition reg := tbl_reg reg_tbl.
Definition n_kinds := List.length kind_names.

(* every class with an accept() method in mypy/nodes.py, mypy/patterns.py is registered *)
Theorem dispatch_total : forallb (fun b => b) reg_tbl = true.
Proof. vm_compute. reflexivity. Qed.
Print Assumptions dispatch_total.

Lemma reg_below : forall k, k < n_kinds -> reg k = true.
Proof.
  intros k Hk. unfold reg, tbl_reg.
  assert (Hlen : List.length reg_tbl = n_kinds) by (vm_compute; reflexivity).
  pose proof dispatch_total as H. rewrite forallb_forall in H. apply H. apply nth_In. lia.
Qed.

Theorem traverse_no_exn :
  forall n, kinds_below n_kinds n -> exists l, visit (depth n) reg sched [] n = inr l.
Proof. exact (traverse_total (fun _ => 0) reg sched n_kinds reg_below). Qed.
Print Assumptions traverse_no_exn.

