(* C13 — format_errors and the exit status as they are written in refurb/main.py today (GenFormat.v, regenerated on every run)
   are the specification model of Lib/Render.v: the renderer is chosen by the format first and the colour setting second,
   the hint depends on `quiet` and on there being a diagnostic, the status on there being a line. *)
From Lib Require Import Base Render.
From P Require Import GenFormat.
Open Scope list_scope.

Definition spec_format (format : option string) (color : bool) : fmt :=
  match format with
  | Some f => if String.eqb f "github" then FGithub else if color then FColor else FPlain
  | None => if color then FColor else FPlain
  end.

Theorem format_errors_translated_is_the_model : forall format color quiet rel items,
  format_errors_translated format color quiet rel items = format_errors (spec_format format color) rel quiet items.
Proof.
  intros. unfold format_errors_translated, format_errors, chosen_format, spec_format, opt_str_eqb.
  replace hint_text with hint by reflexivity.
  destruct format as [f|]; [destruct (String.eqb f "github")|]; reflexivity.
Qed.
Print Assumptions format_errors_translated_is_the_model.

(* the GitHub format is not touched by the colour setting *)
Theorem github_format_ignores_colour : forall quiet rel items c1 c2,
  format_errors_translated (Some "github"%string) c1 quiet rel items = format_errors_translated (Some "github"%string) c2 quiet rel items.
Proof. intros. rewrite !format_errors_translated_is_the_model. reflexivity. Qed.
Print Assumptions github_format_ignores_colour.

Theorem exit_translated_is_the_model : forall items, exit_translated items = exit_status items.
Proof. reflexivity. Qed.
Print Assumptions exit_translated_is_the_model.
