(* C13 — report contract.  Lib/Render.v is the hand-written model of the renderers
   (tied to refurb/error.py and refurb/main.py by the correspondence check on every run);
   the proofs are in Lib/RenderProofs.v. *)
From Lib Require Import Base Render RenderProofs.
Open Scope list_scope.

(* colour only adds escape sequences — any message: 0..n back-ticks, %, quotes, non-ASCII *)
Theorem color_only_adds_escapes : forall e, safe_err e = true -> strip_ansi (color e) = plain e.
Proof. exact color_only_adds_escapes_all. Qed.
Print Assumptions color_only_adds_escapes.

(* each diagnostic is one line in every format *)
Theorem one_line : forall e rel, safe_err e = true -> safe rel = true ->
  str_in (ascii_of_N 10) (plain e) = false /\ str_in (ascii_of_N 10) (color e) = false /\
  str_in (ascii_of_N 10) (github rel e) = false.
Proof.
  intros e rel H Hr. split; [now apply plain_one_line_all|]. split; [now apply color_one_line_all|now apply github_one_line_all].
Qed.
Print Assumptions one_line.

(* the --explain hint appears iff there is a diagnostic and --quiet is off *)
Theorem hint_iff : forall f rel quiet items,
  format_errors f rel quiet items = (concat_str nl (map (render f rel) items) ++ hint)%string
  <-> (quiet = false /\ existsb is_err items = true).
Proof. exact hint_iff_all. Qed.
Print Assumptions hint_iff.

(* exit status 1 exactly when something is reported *)
Theorem exit_iff : forall items, exit_status items = 1 <-> items <> [].
Proof. exact exit_iff_all. Qed.
Print Assumptions exit_iff.

Theorem same_order : forall f g rel items,
  List.length (map (render f rel) items) = List.length (map (render g rel) items).
Proof. exact same_order_all. Qed.
Print Assumptions same_order.

Example safe_example :
  safe_err {| e_file := "src/app.py"; e_line := 3; e_col := 4; e_prefix := "FURB"; e_code := 123;
              e_msg := "Replace `int(x)` with `x` (100% `sure`)" |} = true.
Proof. vm_compute. reflexivity. Qed.
Print Assumptions safe_example.
