(* C02 — code quoted in a diagnostic is the user's code and is valid Python.
   The model (Lib/Stringify.v) is tied to refurb.checks.common.stringify by the
   correspondence check on every run. *)
From Lib Require Import Base PyAst Equiv Stringify.
From Lib Require Import StrEscapes.
Open Scope list_scope.

(* escapes: for every string (any code points) the quoted literal reads back as that
   string under Python's rules for a double-quoted literal *)
Theorem str_literal_roundtrip :
  forall s, py_unescape (List.length (str_body s)) (str_body s) = Some s.
Proof. exact str_literal_roundtrip_all. Qed.
Print Assumptions str_literal_roundtrip.

(* the only placeholder is `x`, and it appears exactly where a node cannot be rendered *)
Theorem placeholder_is_x : forall c l t, stringify (EOpaque c l t) = "x"%string.
Proof. reflexivity. Qed.
Print Assumptions placeholder_is_x.

(* parentheses: an operand is wrapped exactly when it binds less tightly than required *)
Theorem wrap_iff : forall e p t,
  wrap e p t = (if Nat.ltb (precedence e) p then "(" ++ t ++ ")" else t)%string.
Proof. reflexivity. Qed.
Print Assumptions wrap_iff.

(* an operand pasted next to an operator in a suggestion (stringify_operand) is the expression's own text,
   parenthesised exactly when it binds less tightly than the place it is pasted into; the object of a method
   call is an atom or parenthesised; a conditional, lambda or walrus is parenthesised next to every operator *)
Theorem pasted_operand_wraps : forall (e : expr) (operator s : string),
  stringify_ (S (expr_depth e)) e = Some s -> (String.eqb operator "." && is_int_literal e)%bool = false ->
  String.eqb operator "{}" = false ->
  stringify e = s /\
  stringify_operand e operator = (if Nat.ltb (precedence e) (operand_precedence operator) then "(" ++ s ++ ")" else s)%string.
Proof. exact stringify_operand_wraps. Qed.
Print Assumptions pasted_operand_wraps.

Theorem pasted_object_of_method_call : forall (e : expr) (s : string),
  stringify_ (S (expr_depth e)) e = Some s -> (precedence e < atom_precedence)%nat ->
  stringify_operand e "." = ("(" ++ s ++ ")")%string.
Proof. exact operand_of_dot_is_atom_or_wrapped. Qed.
Print Assumptions pasted_object_of_method_call.

Theorem pasted_loose_operand : forall (e : expr) (operator s : string),
  stringify_ (S (expr_depth e)) e = Some s -> (precedence e <= 2)%nat -> String.eqb operator "{}" = false ->
  stringify_operand e operator = ("(" ++ s ++ ")")%string.
Proof. exact loose_operand_always_wrapped. Qed.
Print Assumptions pasted_loose_operand.

(* inside an f-string field: parenthesised below `or`, and never directly after the opening brace *)
Theorem pasted_field : forall (e : expr) (s : string),
  stringify_ (S (expr_depth e)) e = Some s ->
  let t := (if Nat.ltb (precedence e) 3 then "(" ++ s ++ ")" else s)%string in
  stringify_operand e "{}" = (if starts_with_brace t then " " ++ t else t)%string.
Proof. exact stringify_operand_field. Qed.
Print Assumptions pasted_field.

Example pasted_examples :
  stringify_operand (ECond (EName "c" "c") (EName "a" "a") (EName "b" "b")) "or" = "(a if c else b)"%string
  /\ stringify_operand (EOp "+" (EName "s" "s") (EName "t" "t")) "." = "(s + t)"%string
  /\ stringify_operand (EOp "+" (EName "s" "s") (EName "t" "t")) "==" = "s + t"%string
  /\ stringify_operand (EWalrus (EName "w" "w") (EName "n" "n")) "{}" = "(w := n)"%string
  /\ stringify_operand (EInt 16) "." = "(16)"%string
  /\ stringify_operand (ESet [EInt 1; EInt 2]) "{}" = " {1, 2}"%string.
Proof. repeat split; reflexivity. Qed.
Print Assumptions pasted_examples.

(* the shapes that were quoted wrongly before the repair, on the model *)
Definition nm (s : string) := EName s s.
Example witnesses_fixed :
  stringify (EIndex (EOp "+" (nm "a") (nm "b")) (ESlice None None None)) = "(a + b)[:]"%string /\
  stringify (EUnary "-" (EOp "+" (nm "a") (nm "b"))) = "-(a + b)"%string /\
  stringify (EMember (EOp "+" (nm "a") (nm "b")) "real" "") = "(a + b).real"%string /\
  stringify (EOp "*" (EOp "+" (nm "a") (nm "b")) (nm "c")) = "(a + b) * c"%string /\
  stringify (EOp "-" (nm "a") (EOp "-" (nm "b") (nm "c"))) = "a - (b - c)"%string /\
  stringify (EOp "**" (EUnary "-" (nm "a")) (nm "b")) = "(-a) ** b"%string /\
  stringify (EOp "**" (nm "a") (EUnary "-" (nm "b"))) = "a ** -b"%string /\
  stringify (ECond (nm "d") (ECond (nm "b") (nm "a") (nm "c")) (nm "n")) = "(a if b else c) if d else n"%string /\
  stringify (EIndex (nm "xs") (ETuple [nm "a"; ESlice (Some (EInt 1)) None None])) = "xs[a, 1:]"%string /\
  stringify (EMember (EInt 1) "real" "") = "(1).real"%string /\
  stringify (EList [EWalrus (nm "w") (nm "a")]) = "[(w := a)]"%string /\
  stringify (ECmp ["<"] [ECmp ["<"] [nm "a"; nm "b"]; nm "c"]) = "(a < b) < c"%string.
Proof. vm_compute. repeat split; reflexivity. Qed.
Print Assumptions witnesses_fixed.

(* still wrong on the current tree (open finding): the callee of a call is never wrapped *)
Example callee_not_wrapped :
  stringify (ECall (ELambda [(ARG_POS, Some "p")] (Some (nm "p"))) [(ARG_POS, None, EInt 3)])
  = "lambda p: p(3)"%string.
Proof. vm_compute. reflexivity. Qed.
Print Assumptions callee_not_wrapped.
