From Lib Require Import Base PyAst Equiv Stringify.
Open Scope list_scope.
Theorem placeholder_is_x : forall c l t, stringify (EOpaque c l t) = "x"%string.
Proof. reflexivity. Qed.
Print Assumptions placeholder_is_x.
