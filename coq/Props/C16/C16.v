(* C16 — plugin contract.  Lib/Loader.v is the hand-written model of get_modules (module
   identity = import name), tied by C16's correspondence check. *)
From Lib Require Import Base Loader.
Open Scope list_scope.

(* any list of load targets -- duplicates, a package and its own sub-module, the built-in
   package again -- yields every check module at most once *)
Theorem modules_once : forall (builtin : target) (ts : list target), NoDup (get_modules builtin ts).
Proof. exact modules_once_all. Qed.
Print Assumptions modules_once.

Example overlapping_targets :
  get_modules (Pkg "refurb.checks" ["refurb.checks.a"; "refurb.checks.b"])
              [Pkg "plug" ["plug.x"; "plug.y"]; Mod "plug.x"; Pkg "plug" ["plug.x"; "plug.y"]; Pkg "refurb.checks" ["refurb.checks.a"; "refurb.checks.b"]; Mod "solo"; Mod "solo"]
  = ["refurb.checks.a"; "refurb.checks.b"; "plug.x"; "plug.y"; "solo"]%string.
Proof. vm_compute. reflexivity. Qed.
Print Assumptions overlapping_targets.
