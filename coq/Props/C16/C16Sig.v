(* C16, the check-function contract.  GenNodes.v holds the classes the visitor can dispatch on
   (the values of METHOD_NODE_MAPPINGS, which is what loader.VALID_NODE_TYPES is defined as),
   regenerated from the source on every run; Lib/Signature.v models extract_function_types and
   run_check (tied by the correspondence on synthesised functions). *)
From Lib Require Import Base Signature.
From P Require Import GenNodes.
Open Scope list_scope.
Open Scope string_scope.

Theorem accepted_checks_are_callable_as_registered : forall s cs, validate valid_nodes s = Accept cs ->
  (forall c, In c cs -> In c valid_nodes) /\
  is_callable s = true /\
  (exists n e opt, params s = n :: e :: opt /\ snd e = AListError /\
                   (opt = [] \/ exists p, opt = [p] /\ fst p = "settings" /\ snd p = ASettings)) /\
  args_passed s = List.length (params s).
Proof. exact (accepted_is_callable_as_registered valid_nodes). Qed.
Print Assumptions accepted_checks_are_callable_as_registered.

Theorem well_formed_checks_are_accepted : forall n0 n1 c opt,
  In c valid_nodes -> (opt = [] \/ opt = [("settings", ASettings)]) ->
  validate valid_nodes {| is_callable := true; params := (n0, ACls c) :: (n1, AListError) :: opt |} = Accept [c].
Proof. exact (well_formed_is_accepted valid_nodes). Qed.
Print Assumptions well_formed_checks_are_accepted.

(* non-vacuity, and the classes a check can never be called for are refused *)
Example concrete_accepted : validate valid_nodes {| is_callable := true; params := [("node", ACls "IntExpr"); ("errors", AListError)] |} = Accept ["IntExpr"].
Proof. vm_compute. reflexivity. Qed.
Example abstract_refused : validate valid_nodes {| is_callable := true; params := [("node", ACls "RefExpr"); ("errors", AListError)] |} = Reject "node type".
Proof. vm_compute. reflexivity. Qed.
