(* C15 — which target version the gates see.  GenSelect.v is Settings.merge as it is written in
   refurb/settings.py today; GenTarget.v is Settings.get_python_version and the order in which
   load_settings hands the two sources to merge. *)
From Lib Require Import Base Select.
From P Require Import GenSelect GenTarget.

(* a version given on the command line is the target, whatever the config file says *)
Theorem command_line_version_is_the_target :
  forall (config cli : settings) (v running : N * N),
    python_version cli = Some v -> effective_target (load_merge config cli) running = v.
Proof. intros config cli v running H. unfold effective_target, load_merge, merge. cbn [python_version]. rewrite H. reflexivity. Qed.
Print Assumptions command_line_version_is_the_target.

(* without one, the config file's version is; without either, the running interpreter's *)
Theorem config_version_otherwise :
  forall (config cli : settings) (running : N * N),
    python_version cli = None ->
    effective_target (load_merge config cli) running =
    match python_version config with Some v => v | None => running end.
Proof.
  intros config cli running H. unfold effective_target, load_merge, merge. cbn [python_version]. rewrite H.
  destruct (python_version config); reflexivity.
Qed.
Print Assumptions config_version_otherwise.

Example both_sources_disagree :
  effective_target (load_merge {| files := []; explain := None; ignore := []; load := []; enable := []; disable := [];
       debug := false; generate := false; help := false; version := false; quiet := false; enable_all := false;
       disable_all := false; config_file := None; python_version := Some (3, 12)%N; mypy_args := []; format := None;
       sort_by := None; verbose := false; timing_stats := None; color := true |}
     {| files := []; explain := None; ignore := []; load := []; enable := []; disable := [];
       debug := false; generate := false; help := false; version := false; quiet := false; enable_all := false;
       disable_all := false; config_file := None; python_version := Some (3, 8)%N; mypy_args := []; format := None;
       sort_by := None; verbose := false; timing_stats := None; color := true |}) (3, 12)%N = (3, 8)%N.
Proof. reflexivity. Qed.
Print Assumptions both_sources_disagree.
