(* C15 — suggestions never need a newer Python than the target version.
   GenGates.v is regenerated from the get_python_version() tests in refurb/checks. *)
From Lib Require Import Base Gates.
From P Require Import GenGates.

Theorem never_too_new :
  forall code gs v, In (code, gs) gates -> 7 <= v -> fires gs v = true -> msg_min code gs v <= v.
Proof. apply never_too_new_generic. vm_compute. reflexivity. Qed.
Print Assumptions never_too_new.

Theorem monotone :
  forall code gs v v', In (code, gs) gates -> v <= v' -> fires gs v = true -> fires gs v' = true.
Proof. intros code gs v v' _. apply fires_monotone. Qed.
Print Assumptions monotone.

Theorem message_switch_only_upgrades :
  forall code gs v v', In (code, gs) gates -> v <= v' ->
    Forall2 (fun b b' => b = true -> b' = true) (variants gs v) (variants gs v').
Proof. intros code gs v v' _. apply switch_only_upgrades. Qed.
Print Assumptions message_switch_only_upgrades.

(* non-vacuity: a gated check that fires at 3.10 and not at 3.9 exists in the table *)
Example gated_exists : exists code gs, In (code, gs) gates /\ fires gs 9 = false /\ fires gs 10 = true.
Proof.
  exists 161%N, [ReturnBelow 10]. split; [|split; reflexivity].
  unfold gates; simpl. repeat (try (left; reflexivity); right).
Qed.
Print Assumptions gated_exists.
