From Lib Require Import Base Select.
From P Require Import GenSelect.
