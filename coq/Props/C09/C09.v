(* C09 — which checks run follows the documented enable/disable/ignore precedence.
   should_load and merge are regenerated from refurb/loader.py and refurb/settings.py on
   every run (GenSelect.v); cli_fold / cfg_settings / spec_verdict are in Lib/Select.v. *)
From Lib Require Import Base Select.
From P Require Import GenSelect.
Open Scope list_scope.
Open Scope bool_scope.

(* (1) any sequence of selection options, any length: the last mention wins *)
Theorem last_mention_wins : forall (opts : list sopt) (c : cls),
  status_of (cli_fold opts) c = last_mention (rev opts) c.
Proof. intros. apply cli_fold_last_mention. Qed.
Print Assumptions last_mention_wins.

(* (2) the loading ladder is the README's verdict, for every Settings value and check *)
Lemma nonempty_inter_sym a b : nonempty (inter a b) = existsb (fun c => inb c a) b.
Proof.
  rewrite nonempty_inter.
  destruct (existsb (fun c => inb c b) a) eqn:E1, (existsb (fun c => inb c a) b) eqn:E2; try reflexivity.
  - apply existsb_exists in E1 as (x & Hx & Hb). apply inb_In in Hb.
    assert (existsb (fun c => inb c a) b = true).
    { apply existsb_exists. exists x. split; [exact Hb|now apply inb_In]. } congruence.
  - apply existsb_exists in E2 as (x & Hx & Ha). apply inb_In in Ha.
    assert (existsb (fun c => inb c b) a = true).
    { apply existsb_exists. exists x. split; [exact Ha|now apply inb_In]. } congruence.
Qed.

Theorem ladder_matches_readme : forall s k, should_load s k = spec_verdict s k.
Proof.
  intros s k. unfold should_load, spec_verdict, code_of, cats_of.
  rewrite !nonempty_inter_sym.
  destruct (inb (Code (k_prefix k) (k_id k) None) (ignore s)); simpl; [reflexivity|].
  destruct (existsb (fun c => inb c (ignore s)) (map (fun cat => Cat cat None) (k_cats k))); simpl; [reflexivity|].
  destruct (inb (Code (k_prefix k) (k_id k) None) (enable s)); [reflexivity|].
  destruct (inb (Code (k_prefix k) (k_id k) None) (disable s)); [reflexivity|].
  destruct (existsb (fun c => inb c (enable s)) (map (fun cat => Cat cat None) (k_cats k))); [reflexivity|].
  destruct (existsb (fun c => inb c (disable s)) (map (fun cat => Cat cat None) (k_cats k))); simpl; [reflexivity|].
  destruct (disable_all s); reflexivity.
Qed.
Print Assumptions ladder_matches_readme.

Corollary explicit_code_beats_category : forall s k,
  inb (code_of k) (ignore s) = false -> existsb (fun c => inb c (ignore s)) (cats_of k) = false ->
  (inb (code_of k) (enable s) = true -> should_load s k = true) /\
  (inb (code_of k) (enable s) = false -> inb (code_of k) (disable s) = true -> should_load s k = false).
Proof.
  intros s k H1 H2. rewrite ladder_matches_readme. unfold spec_verdict. rewrite H1, H2. simpl.
  split; [intros ->; reflexivity|intros -> ->; reflexivity].
Qed.
Print Assumptions explicit_code_beats_category.

Corollary ignore_silences_everywhere : forall s k,
  inb (code_of k) (ignore s) = true \/ existsb (fun c => inb c (ignore s)) (cats_of k) = true ->
  should_load s k = false.
Proof.
  intros s k H. rewrite ladder_matches_readme. unfold spec_verdict.
  destruct H as [-> | ->]; [reflexivity|now rewrite orb_true_r].
Qed.
Print Assumptions ignore_silences_everywhere.

(* a path-scoped (amend) ignore never unloads a check *)
Theorem path_scoped_never_unloads : forall s k c,
  match c with Code _ _ (Some _) | Cat _ (Some _) => True | _ => False end ->
  spec_verdict {| files := files s; explain := explain s; ignore := c :: ignore s; load := load s; enable := enable s;
                  disable := disable s; debug := debug s; generate := generate s; help := help s; version := version s;
                  quiet := quiet s; enable_all := enable_all s; disable_all := disable_all s; config_file := config_file s;
                  python_version := python_version s; mypy_args := mypy_args s; format := format s; sort_by := sort_by s;
                  verbose := verbose s; timing_stats := timing_stats s; color := color s |} k
  = spec_verdict s k.
Proof.
  intros s k c Hc. unfold spec_verdict, code_of, cats_of. simpl.
  assert (E1 : inb (Code (k_prefix k) (k_id k) None) (c :: ignore s) = inb (Code (k_prefix k) (k_id k) None) (ignore s)).
  { unfold inb. simpl. destruct c as [p n [q|]|n [q|]]; try destruct Hc; simpl; rewrite ?andb_false_r; reflexivity. }
  assert (E2 : forall l, existsb (fun x => inb x (c :: ignore s)) (map (fun cat => Cat cat None) l)
                       = existsb (fun x => inb x (ignore s)) (map (fun cat => Cat cat None) l)).
  { induction l as [|x r IH]; simpl; [reflexivity|]. rewrite IH. f_equal.
    unfold inb. simpl. destruct c as [p n [q|]|n [q|]]; try destruct Hc; simpl; rewrite ?andb_false_r; reflexivity. }
  now rewrite E1, E2.
Qed.
Print Assumptions path_scoped_never_unloads.

(* (3) merging config file and command line *)
Definition cli_resets (old new : settings) : bool :=
  (negb (disable_all old) && disable_all new) || (negb (enable_all old) && enable_all new).

Theorem all_switch_resets : forall old new, cli_resets old new = true ->
  enable (merge old new) = enable new /\ disable (merge old new) = disable new.
Proof.
  intros old new H. unfold merge, merge_lists; simpl. unfold cli_resets in H. rewrite H. split; reflexivity.
Qed.
Print Assumptions all_switch_resets.

Theorem lists_are_combined : forall old new c, cli_resets old new = false ->
  inb c (disable (merge old new)) = inb c (disable old) || inb c (disable new) /\
  inb c (enable (merge old new)) = (inb c (enable old) || inb c (enable new)) && negb (inb c (disable (merge old new))).
Proof.
  intros old new c H. unfold merge, merge_lists; simpl. unfold cli_resets in H. rewrite H. simpl.
  rewrite inb_diff, !inb_union. split; reflexivity.
Qed.
Print Assumptions lists_are_combined.

Theorem flags_and_ignores_merge : forall old new c,
  enable_all (merge old new) = enable_all old || enable_all new /\
  disable_all (merge old new) = disable_all old || disable_all new /\
  inb c (ignore (merge old new)) = inb c (ignore old) || inb c (ignore new).
Proof. intros. unfold merge; simpl. rewrite inb_union. repeat split; reflexivity. Qed.
Print Assumptions flags_and_ignores_merge.

(* (4) end to end: config file + any command line, per classifier *)
Theorem selection_matches_history : forall (cfg : cfgsel) (opts : list sopt) (c : cls),
  let m := merge (cfg_settings cfg) (cli_settings opts) in
  let last := last_mention (rev opts) c in
  if cli_resets (cfg_settings cfg) (cli_settings opts)
  then (if inb c (enable m) then Some true else if inb c (disable m) then Some false else None) = last
  else inb c (disable m) = (match last with Some false => true | _ => false end) || inb c (c_disable cfg)
       /\ inb c (enable m) = ((match last with Some true => true | _ => false end)
                              || (inb c (c_enable cfg) && negb (inb c (c_disable cfg))))
                             && negb (inb c (disable m)).
Proof.
  intros cfg opts c m last.
  destruct (cli_fold_last_mention opts c) as [Hst Hdis]. fold last in Hst.
  destruct (cli_resets (cfg_settings cfg) (cli_settings opts)) eqn:R.
  - destruct (all_switch_resets _ _ R) as [E D]. subst m. rewrite E, D. exact Hst.
  - destruct (lists_are_combined _ _ c R) as [D E]. subst m. rewrite E, D. clear E D.
    unfold cfg_settings, cli_settings, settings_of_sel; simpl.
    unfold status_of in Hst. rewrite inb_diff.
    destruct (inb c (st_enable (cli_fold opts))) eqn:E1.
    + rewrite (Hdis c E1) in *. rewrite <- Hst. simpl.
      split; destruct (inb c (c_disable cfg)); destruct (inb c (c_enable cfg)); reflexivity.
    + destruct (inb c (st_disable (cli_fold opts))) eqn:E2; rewrite <- Hst; simpl;
        split; destruct (inb c (c_disable cfg)); destruct (inb c (c_enable cfg)); reflexivity.
Qed.
Print Assumptions selection_matches_history.

(* non-vacuity: a command line with an all-switch after a config file that has lists *)
Example reset_example :
  let cfg := {| c_enable := [Code "FURB" 120 None]; c_disable := [Cat "readability" None]; c_ignore := [];
                c_enable_all := false; c_disable_all := false |} in
  let opts := [ODisableAll; OEnable [Cat "readability" None]; ODisable [Code "FURB" 123 None]] in
  cli_resets (cfg_settings cfg) (cli_settings opts) = true /\
  should_load (merge (cfg_settings cfg) (cli_settings opts))
              {| k_prefix := "FURB"; k_id := 123; k_cats := ["readability"]; k_enabled := true |} = false /\
  should_load (merge (cfg_settings cfg) (cli_settings opts))
              {| k_prefix := "FURB"; k_id := 114; k_cats := ["readability"]; k_enabled := true |} = true.
Proof. vm_compute. repeat split; reflexivity. Qed.
Print Assumptions reset_example.
