(* C01 — FURB181: the translated check() (GenLib181.v, regenerated from refurb/checks on every run) is the specification of C01LibSpec.v *)
From Coq Require Import ZArith.
From Lib Require Import Base PyAst Equiv Stringify PyMatch.
From P Require Import C01LibSpec GenLib181.
Open Scope list_scope.
Open Scope string_scope.

Theorem check_181_is_spec : forall type_is node, check_181 type_is node = spec_181 type_is node.
Proof.
  intros type_is node.
  destruct node as [| | | | | | | | | | | callee args | | | | | | | | | | |]; try reflexivity.
  destruct callee as [|inner m2 f2| | | | | | | | | | | | | | | | | | | | |]; try reflexivity.
  destruct inner as [| | | | | | | | | | | c2 dargs | | | | | | | | | | |]; try reflexivity.
  destruct c2 as [|root m1 f1| | | | | | | | | | | | | | | | | | | | |]; try reflexivity.
  destruct args as [|a0 rest]; [|destruct dargs as [|[[k1 n1] a1] [|d2 drest]]; reflexivity].
  unfold check_181, spec_181, hexdigest_advice.
  destruct dargs as [|[[k1 n1] a1] [|d2 drest]];
    destruct (String.eqb m1 "digest"), (String.eqb m2 "hex"); cbn [andb]; try reflexivity;
    match goal with |- context [existsb ?f ?l] => change l with hash_types; destruct (existsb f hash_types) end; reflexivity.
Qed.

(* in words: an advice is printed only for `<root>.digest(<at most one argument>).hex()` on a hashlib object, and it repeats root and argument *)
Theorem hexdigest_advice_keeps_root_and_length : forall type_is node t, In t (check_181 type_is node) ->
  exists root dargs m1 f1 m2 f2, node = ECall (EMember (ECall (EMember root m1 f1) dargs) m2 f2) [] /\ m1 = "digest" /\ m2 = "hex" /\
    existsb (type_is root) hash_types = true /\
    ((dargs = [] /\ t = hexdigest_advice root (PLit "")) \/ (exists k n a, dargs = [(k, n, a)] /\ t = hexdigest_advice root (PExpr a))).
Proof.
  intros type_is node t H. rewrite check_181_is_spec in H. unfold spec_181 in H.
  destruct node as [| | | | | | | | | | | callee args | | | | | | | | | | |]; try contradiction.
  destruct callee as [|inner m2 f2| | | | | | | | | | | | | | | | | | | | |]; try contradiction.
  destruct inner as [| | | | | | | | | | | c2 dargs | | | | | | | | | | |]; try contradiction.
  destruct c2 as [|root m1 f1| | | | | | | | | | | | | | | | | | | | |]; try contradiction.
  destruct args as [|a0 rest]; [|contradiction].
  destruct (String.eqb m1 "digest") eqn:E1; [|contradiction].
  destruct (String.eqb m2 "hex") eqn:E2; [|contradiction].
  destruct (existsb (type_is root) hash_types) eqn:E3; [|contradiction].
  apply String.eqb_eq in E1. apply String.eqb_eq in E2. cbn [andb] in H.
  exists root, dargs, m1, f1, m2, f2. repeat split; try assumption.
  destruct dargs as [|[[k1 n1] a1] [|d2 drest]]; try contradiction.
  - destruct H as [<-|[]]. now left.
  - destruct H as [<-|[]]. right. now exists k1, n1, a1.
Qed.

Print Assumptions check_181_is_spec.
Print Assumptions hexdigest_advice_keeps_root_and_length.
