(* C01 — FURB163: the translated check() (GenLib163.v, regenerated from refurb/checks on every run) is the specification of C01LibSpec.v *)
From Coq Require Import ZArith.
From Lib Require Import Base PyAst Equiv Stringify PyMatch.
From P Require Import C01LibSpec GenLib163.
Open Scope list_scope.
Open Scope string_scope.

Theorem check_163_is_spec : forall node, map render (check_163 node) = spec_163 node.
Proof.
  intros node. destruct node as [| | | | | | | | | | | callee args | | | | | | | | | | |]; try reflexivity.
  destruct args as [|[[k1 n1] a1] args]; [destruct callee; reflexivity|].
  destruct args as [|[[k2 n2] b] args]; [destruct callee; reflexivity|].
  destruct args as [|a3 rest]; [|destruct callee; reflexivity].
  assert (G : forall f, map render (check_163 (ECall (EName "" f) [(k1, n1, a1); (k2, n2, b)])) = spec_163 (ECall (EName "" f) [(k1, n1, a1); (k2, n2, b)])).
  { intro f. unfold check_163, spec_163, named_base. cbn [ref_fullname].
    destruct (String.eqb f "math.log"); [|reflexivity].
    destruct b as [nm0 fullname|e0 nm0 fullname|v|repr| | | | | | | | | | | | | | | | | | |];
      [ cbn [ref_fullname]; destruct (String.eqb fullname "math.e"); reflexivity
      | cbn [ref_fullname]; destruct (String.eqb fullname "math.e"); reflexivity
      | destruct (Z.eqb v 2); [reflexivity|]; destruct (Z.eqb v 10); reflexivity
      | destruct (String.eqb repr "2.0"); [reflexivity|]; destruct (String.eqb repr "10.0"); reflexivity
      | reflexivity .. ]. }
  destruct callee as [nm0 f|e0 nm0 f| | | | | | | | | | | | | | | | | | | | |]; [apply G|apply G|reflexivity ..].
Qed.

Theorem log_advice_only_for_its_own_base : forall node m, In m (map render (check_163 node)) ->
  exists callee a1 b k1 n1 k2 n2, node = ECall callee [(k1, n1, a1); (k2, n2, b)] /\ ref_fullname callee = "math.log" /\
    ( (m = "Replace `math.log(x, 2)` with `math.log2(x)`" /\ b = EInt 2)
   \/ (m = "Replace `math.log(x, 10)` with `math.log10(x)`" /\ b = EInt 10)
   \/ (m = "Replace `math.log(x, 2.0)` with `math.log2(x)`" /\ b = EFloat "2.0")
   \/ (m = "Replace `math.log(x, 10.0)` with `math.log10(x)`" /\ b = EFloat "10.0")
   \/ (m = "Replace `math.log(x, math.e)` with `math.log(x)`" /\ ref_fullname b = "math.e") ).
Proof.
  intros node m H. rewrite check_163_is_spec in H. unfold spec_163 in H.
  destruct node as [| | | | | | | | | | | callee args | | | | | | | | | | |]; try contradiction.
  destruct args as [|[[k1 n1] a1] [|[[k2 n2] b] [|a3 rest]]]; try contradiction.
  destruct (String.eqb (ref_fullname callee) "math.log") eqn:F; [|contradiction]. apply String.eqb_eq in F.
  exists callee, a1, b, k1, n1, k2, n2. split; [reflexivity|]. split; [exact F|].
  unfold named_base in H.
  destruct b; cbn [ref_fullname] in H |- *;
    try (destruct (String.eqb "" "math.e") eqn:Z; [discriminate Z|contradiction]).
  - destruct (String.eqb fullname "math.e") eqn:E; [|contradiction]. apply String.eqb_eq in E. destruct H as [<-|[]]. right; right; right; right. now split.
  - destruct (String.eqb fullname "math.e") eqn:E; [|contradiction]. apply String.eqb_eq in E. destruct H as [<-|[]]. right; right; right; right. now split.
  - destruct (Z.eqb v 2) eqn:E2.
    + apply Z.eqb_eq in E2. subst v. destruct H as [<-|[]]. left. now split.
    + destruct (Z.eqb v 10) eqn:E10.
      * apply Z.eqb_eq in E10. subst v. destruct H as [<-|[]]. right; left. now split.
      * cbn in H. contradiction.
  - destruct (String.eqb repr "2.0") eqn:E2.
    + apply String.eqb_eq in E2. subst repr. destruct H as [<-|[]]. right; right; left. now split.
    + destruct (String.eqb repr "10.0") eqn:E10.
      * apply String.eqb_eq in E10. subst repr. destruct H as [<-|[]]. right; right; right; left. now split.
      * cbn in H. contradiction.
Qed.

Print Assumptions check_163_is_spec.
Print Assumptions log_advice_only_for_its_own_base.
