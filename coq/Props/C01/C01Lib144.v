(* C01 — FURB144: the translated check() (GenLib144.v, regenerated from refurb/checks on every run) is the specification of C01LibSpec.v *)
From Coq Require Import ZArith.
From Lib Require Import Base PyAst Equiv Stringify PyMatch.
From P Require Import C01LibSpec GenLib144.
Open Scope list_scope.
Open Scope string_scope.

Theorem check_144_is_spec : forall type_is node, map render (check_144 type_is node) = spec_144 type_is node.
Proof.
  intros type_is node. by_callee node.
  assert (G : forall n f, map render (check_144 type_is (ECall (EName n f) [(k, nm, arg)])) = spec_144 type_is (ECall (EName n f) [(k, nm, arg)])).
  { intros n f. unfold check_144, spec_144, one_argument, advise. cbn [ref_fullname name_of]. cbv zeta.
    on_key f "os.remove"; [destruct (type_is arg "pathlib.Path"); cbn; rewrite ?String.eqb_refl; reflexivity|].
    on_key f "os.unlink"; [destruct (type_is arg "pathlib.Path"); cbn; rewrite ?String.eqb_refl; reflexivity|].
    cbn [existsb]. rewrite E, E0. reflexivity. }
  destruct callee; try reflexivity; apply G.
Qed.

Print Assumptions check_144_is_spec.
