(* C01 — the checks that advise a LIBRARY replacement (GenLib<code>.v: check() of FURB104, 141, 144, 146, 155, 163
   translated from refurb/checks on every run, one file each; statements in C01Lib<code>.v): what each reports, and with which message, is exactly what the
   specification below says — the correspondence table of the pathlib documentation ("Correspondence to tools in
   the os module") and the definition of math.log2 / math.log10 / the default base of math.log.  The behaviour of the
   library functions themselves is outside the model (it is decided by execution against CPython in the check);
   what is proved here is that the advice follows the table, for every call, every spelling of the callee and every
   answer of refurb's type resolution. *)
From Coq Require Import ZArith.
From Lib Require Import Base PyAst Equiv Stringify PyMatch.
Open Scope list_scope.
Open Scope string_scope.

(* ------------------------------------------------------------------ the specification *)
(* os function  |->  what to write after `Path(x).` *)
Definition os_to_pathlib : list (string * string) :=
  [("os.path.isabs", "is_absolute()"); ("os.path.isdir", "is_dir()"); ("os.path.isfile", "is_file()"); ("os.path.islink", "is_symlink()");
   ("os.path.exists", "exists()"); ("os.remove", "unlink()"); ("os.unlink", "unlink()");
   ("os.stat", "stat()"); ("os.path.getsize", "stat().st_size"); ("os.path.getatime", "stat().st_atime");
   ("os.path.getmtime", "stat().st_mtime"); ("os.path.getctime", "stat().st_ctime")].

(* advice for `f(arg)` where the check covers the functions `dom`, names the original as `shown`, and (when strict)
   wants the argument to be known as str / bytes before proposing to wrap it in Path() *)
Definition advise (type_is : expr -> string -> bool) (dom : list string) (strict : bool) (f shown : string) (arg : expr) : list string :=
  if existsb (String.eqb f) dom then
    match lookup_str os_to_pathlib f with
    | Some m =>
        if type_is arg "pathlib.Path" then ["Replace `" ++ shown ++ "(x)` with `x." ++ m ++ "`"]
        else if negb strict || type_is arg "str" || type_is arg "bytes" then ["Replace `" ++ shown ++ "(x)` with `Path(x)." ++ m ++ "`"]
        else []
    | None => []
    end
  else [].

Definition one_argument (node : expr) : option (expr * expr) :=
  match node with ECall callee [(_, _, arg)] => Some (callee, arg) | _ => None end.

Section Spec.
  Variable type_is : expr -> string -> bool.

  Definition spec_146 (node : expr) : list string :=
    match one_argument node with
    | Some (callee, arg) => let f := normalize_os_path (ref_fullname callee) in
        advise type_is ["os.path.isabs"; "os.path.isdir"; "os.path.isfile"; "os.path.islink"] true f f arg
    | None => []
    end.

  Definition spec_155 (node : expr) : list string :=
    match one_argument node with
    | Some (callee, arg) => let f := normalize_os_path (ref_fullname callee) in
        advise type_is ["os.stat"; "os.path.getsize"; "os.path.getatime"; "os.path.getmtime"; "os.path.getctime"] true f f arg
    | None => []
    end.

  Definition spec_141 (node : expr) : list string :=
    match one_argument node with
    | Some (callee, arg) => let f := normalize_os_path (ref_fullname callee) in advise type_is ["os.path.exists"] false f f arg
    | None => []
    end.

  (* FURB144 shows the original under the name the callee is written with *)
  Definition spec_144 (node : expr) : list string :=
    match one_argument node with
    | Some (callee, arg) => advise type_is ["os.remove"; "os.unlink"] false (ref_fullname callee) ("os." ++ name_of callee) arg
    | None => []
    end.
End Spec.

Definition spec_104 (node : expr) : list string :=
  match node with
  | ECall callee _ =>
      let f := ref_fullname callee in
      if String.eqb f "os.getcwd" || String.eqb f "os.getcwdb" then ["Replace `" ++ f ++ "()` with `Path.cwd()`"] else []
  | _ => []
  end.

(* the base of a logarithm written as a literal: (how it is written, the integer it equals) for the two bases that have
   a function of their own *)
Definition named_base (b : expr) : option (string * string) :=
  match b with
  | EInt v => if Z.eqb v 2 then Some ("2", "2") else if Z.eqb v 10 then Some ("10", "10") else None
  | EFloat r => if String.eqb r "2.0" then Some ("2.0", "2") else if String.eqb r "10.0" then Some ("10.0", "10") else None
  | _ => None
  end.

Definition spec_163 (node : expr) : list string :=
  match node with
  | ECall callee [(_, _, _); (_, _, b)] =>
      if String.eqb (ref_fullname callee) "math.log" then
        match named_base b with
        | Some (written, v) => ["Replace `math.log(x, " ++ written ++ ")` with `math.log" ++ v ++ "(x)`"]
        | None => if String.eqb (ref_fullname b) "math.e" then ["Replace `math.log(x, math.e)` with `math.log(x)`"] else []
        end
      else []
  | _ => []
  end.

(* ------------------------------------------------------------------ proofs *)
(* case on whether the symbolic string s is the closed string k *)
Ltac on_key s k :=
  let E := fresh "E" in
  destruct (String.eqb s k) eqn:E;
  [apply String.eqb_eq in E; subst s | ].

Ltac types_then_compute t a :=
  destruct (t a "pathlib.Path"), (t a "str"), (t a "bytes"); vm_compute; reflexivity.

Lemma one_argument_call node : one_argument node = match node with ECall callee [(_, _, arg)] => Some (callee, arg) | _ => None end.
Proof. reflexivity. Qed.

Tactic Notation "by_callee" ident(node) :=
  destruct node as [| | | | | | | | | | | callee args | | | | | | | | | | |]; try reflexivity;
  destruct args as [|[[k nm] arg] [|a2 rest]]; try (destruct callee; reflexivity).


(* ------------------------------------------------------------------ FURB181: h.digest(<n>).hex() -> h.hexdigest(<n>) *)
(* the types refurb's resolution may answer for a hashlib object: every constructor of the module and typeshed's three classes *)
Definition hash_types : list string :=
  ["hashlib._BlakeHash"; "hashlib._Hash"; "hashlib._VarLenHash"; "hashlib.blake2b"; "hashlib.blake2s"; "hashlib.md5"; "hashlib.sha1";
   "hashlib.sha224"; "hashlib.sha256"; "hashlib.sha384"; "hashlib.sha3_224"; "hashlib.sha3_256"; "hashlib.sha3_384"; "hashlib.sha3_512";
   "hashlib.sha512"; "hashlib.shake_128"; "hashlib.shake_256"].

(* the advice keeps the object and the (optional) length argument exactly as written; `len` is what stands between the parentheses *)
Definition hexdigest_advice (root : expr) (len : part) : template :=
  [PLit "Replace `"; PExpr root; PLit ".digest("; len; PLit ").hex()"; PLit "` with `"; PExpr root; PLit ".hexdigest("; len; PLit ")"; PLit "`"].

Definition spec_181 (type_is : expr -> string -> bool) (node : expr) : list template :=
  match node with
  | ECall (EMember (ECall (EMember root m1 _) dargs) m2 _) [] =>
      if String.eqb m1 "digest" && String.eqb m2 "hex" && existsb (type_is root) hash_types then
        match dargs with
        | [] => [hexdigest_advice root (PLit "")]
        | [(_, _, a)] => [hexdigest_advice root (PExpr a)]
        | _ => []
        end
      else []
  | _ => []
  end.
