(* C01 — table-driven advice.  GenCasts.v holds FURB123's FUNC_NAME_MAPPING as regenerated from
   the source on every run: builtin class -> (suffix appended to the operand, classes the operand
   must have).  `T(x)` on an operand that is already a T builds a NEW object when T is mutable and
   may return x itself when it is not; so dropping the call is right exactly for the immutable
   builtins, and the mutable ones need the copy their class offers.  Which builtins are which is
   the language's (trusted) specification below. *)
From Lib Require Import Base.
From P Require Import GenCasts.
Open Scope list_scope.
Open Scope string_scope.

Definition immutable_builtins := ["builtins.bool"; "builtins.bytes"; "builtins.complex"; "builtins.float"; "builtins.int"; "builtins.str"; "builtins.tuple"; "builtins.frozenset"].
Definition mutable_with_copy := ["builtins.list"; "builtins.dict"; "builtins.set"; "builtins.bytearray"].

Definition entry_ok (e : string * string * list string) : bool :=
  let '(name, suffix, expected) := e in
  (if memb String.eqb name immutable_builtins then String.eqb suffix ""
   else if memb String.eqb name mutable_with_copy then String.eqb suffix ".copy()" else false)
  && match expected with cls :: _ => String.eqb name ("builtins." ++ cls) | [] => false end.

Theorem furb123_table_sound : forallb entry_ok casts = true.
Proof. vm_compute. reflexivity. Qed.
Print Assumptions furb123_table_sound.

Theorem furb123_table_keys_unique : nodupb String.eqb (map (fun e => fst (fst e)) casts) = true.
Proof. vm_compute. reflexivity. Qed.
Print Assumptions furb123_table_keys_unique.
