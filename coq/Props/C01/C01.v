From Lib Require Import Base.
Theorem c01_placeholder : True. Proof. exact I. Qed.
Print Assumptions c01_placeholder.
