(* C01 — suggested rewrites preserve behaviour: the rules of the pure fragment.
   Lib/PyEval.v is the model of the Python operations (tied to CPython by the C01
   correspondence); each theorem says original and replacement have the same outcome for
   every operand it quantifies over.  A guard is written out where the unguarded rule is
   false, and the refutation beside it carries the witness. *)
From Coq Require Import QArith.
From Lib Require Import Base PyEval PyRules.
Open Scope list_scope.

(* FURB108  x == y or x == z  ->  x in (y, z) *)
Theorem furb108_sound_unless_nan : forall x y z,
  same_object_same_value x y -> same_object_same_value x z -> reflexive (val x) -> lhs_108 x y z = rhs_108 x y z.
Proof. exact r108_guarded. Qed.
Print Assumptions furb108_sound_unless_nan.
Theorem furb108_unsound_for_nan : exists x y z,
  same_object_same_value x y /\ same_object_same_value x z /\ lhs_108 x y z <> rhs_108 x y z.
Proof. exact r108_refuted. Qed.
Print Assumptions furb108_unsound_for_nan.

(* FURB171  x in (y,)  ->  x == y *)
Theorem furb171_sound_unless_nan : forall x y, same_object_same_value x y -> reflexive (val x) -> lhs_171 x y = rhs_171 x y.
Proof. exact r171_guarded. Qed.
Print Assumptions furb171_sound_unless_nan.
Theorem furb171_unsound_for_nan : exists x y, same_object_same_value x y /\ lhs_171 x y <> rhs_171 x y.
Proof. exact r171_refuted. Qed.
Print Assumptions furb171_unsound_for_nan.

(* FURB110  x if x else y  ->  x or y : the very same object, for every operand *)
Theorem furb110_sound : forall x y, lhs_110 x y = rhs_110 x y.
Proof. exact r110_all. Qed.
Print Assumptions furb110_sound.

(* FURB114  not not x  ->  bool(x) *)
Theorem furb114_sound : forall x, lhs_114 x = rhs_114 x.
Proof. exact r114_all. Qed.
Print Assumptions furb114_sound.

(* FURB124  x == y and x == z  ->  x == y == z *)
Theorem furb124_sound_scalars : forall x y z, scalar (val x) -> scalar (val y) -> scalar (val z) -> lhs_124 x y z = rhs_124 x y z.
Proof. exact r124_scalars. Qed.
Print Assumptions furb124_sound_scalars.

(* FURB136  x if x < y else y -> min(x, y) and the max form: ints and strs *)
Theorem furb136_min_sound_int : forall x y a b, val x = VInt a -> val y = VInt b -> oval (lhs_136_min x y) = oval (rhs_136_min x y).
Proof. exact r136_min_int. Qed.
Print Assumptions furb136_min_sound_int.
Theorem furb136_max_sound_int : forall x y a b, val x = VInt a -> val y = VInt b -> oval (lhs_136_max x y) = oval (rhs_136_max x y).
Proof. exact r136_max_int. Qed.
Print Assumptions furb136_max_sound_int.
Theorem furb136_min_sound_str : forall x y s t, val x = VStr s -> val y = VStr t -> oval (lhs_136_min x y) = oval (rhs_136_min x y).
Proof. exact r136_min_str. Qed.
Print Assumptions furb136_min_sound_str.
Theorem furb136_unsound_signed_zero : oval (lhs_136_min fzero fnegzero) <> oval (rhs_136_min fzero fnegzero).
Proof. exact r136_refuted_signed_zero. Qed.
Print Assumptions furb136_unsound_signed_zero.
Theorem furb136_unsound_nan : oval (lhs_136_min nan1 int0) <> oval (rhs_136_min nan1 int0).
Proof. exact r136_refuted_nan. Qed.
Print Assumptions furb136_unsound_nan.

(* FURB143  x or <empty value of x's type>  ->  x : same value except for floats *)
Theorem furb143_same_value : forall x d, zero_like (val x) = Some d -> not_float (val x) -> oval (lhs_143 x d) = oval (rhs_143 x d).
Proof. exact r143_value. Qed.
Print Assumptions furb143_same_value.
Theorem furb143_unsound_signed_zero : oval (lhs_143 fnegzero (VFloat (FNum 0))) <> oval (rhs_143 fnegzero (VFloat (FNum 0))).
Proof. exact r143_refuted_signed_zero. Qed.
Print Assumptions furb143_unsound_signed_zero.
Theorem furb143_not_same_object : lhs_143 empty_list1 (VList []) <> rhs_143 empty_list1 (VList []).
Proof. exact r143_refuted_identity. Qed.
Print Assumptions furb143_not_same_object.

(* FURB149  comparisons of a bool with True/False *)
Theorem furb149_is_true_sound : forall b c, val b = VBool c -> oval (lhs_149_is_true b) = oval (rhs_149_pos b).
Proof. exact r149_is_true. Qed.
Print Assumptions furb149_is_true_sound.
Theorem furb149_is_false_sound : forall b c, val b = VBool c -> oval (lhs_149_is_false b) = oval (rhs_149_neg b).
Proof. exact r149_is_false. Qed.
Print Assumptions furb149_is_false_sound.
Theorem furb149_eq_true_sound : forall b c, val b = VBool c -> oval (lhs_149_eq_true b) = oval (rhs_149_pos b).
Proof. exact r149_eq_true. Qed.
Print Assumptions furb149_eq_true_sound.

(* FURB168/169  isinstance(x, type(None)), type(x) is type(None)  ->  x is None *)
Theorem furb168_sound : forall x, lhs_168 x = rhs_168 x.
Proof. exact r168_all. Qed.
Print Assumptions furb168_sound.

(* FURB191 *)
Theorem furb191_is_sound : forall b, oval (lhs_191_is b) = oval (rhs_191 b).
Proof. exact r191_is_all. Qed.
Print Assumptions furb191_is_sound.
Theorem furb191_in_sound_bool : forall b c, val b = VBool c -> oval (lhs_191_in b) = oval (rhs_191 b).
Proof. exact r191_in_bool. Qed.
Print Assumptions furb191_in_sound_bool.
Theorem furb191_in_unsound_int : oval (lhs_191_in (fresh (VInt 1))) <> oval (rhs_191 (fresh (VInt 1))).
Proof. exact r191_in_refuted_int. Qed.
Print Assumptions furb191_in_unsound_int.

(* FURB192  sorted(l)[0] -> min(l), sorted(l)[-1] -> max(l): every list of ints, the empty one included *)
Theorem furb192_first_is_min_int : forall l, lhs_192_first l = rhs_192_min l.
Proof. exact r192_first_min_int. Qed.
Print Assumptions furb192_first_is_min_int.
Theorem furb192_last_is_max_int : forall l, lhs_192_last l = rhs_192_max l.
Proof. exact r192_last_max_int. Qed.
Print Assumptions furb192_last_is_max_int.

(* FURB115  len(x) == 0 -> not x,  len(x) >= 1 -> bool(x) *)
Theorem furb115_eq0_sound : forall x, sized (val x) -> lhs_115_eq0 x = rhs_115_not x.
Proof. exact r115_eq0. Qed.
Print Assumptions furb115_eq0_sound.
Theorem furb115_ge1_sound : forall x, sized (val x) -> lhs_115_ge1 x = rhs_115_bool x.
Proof. exact r115_ge1. Qed.
Print Assumptions furb115_ge1_sound.
