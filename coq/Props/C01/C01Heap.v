(* C01 — rewrite rules whose original or replacement is a statement (Lib/PyHeap.v: names hold
   addresses, contents live in a heap, so who else sees a mutation is part of the statement). *)
From Lib Require Import Base PyHeap.
Open Scope list_scope.

(* FURB113  x.append(a); x.append(b) -> x.extend((a, b)) : the same store *)
Theorem furb113_sound : forall x a b s, bind (op_append x a s) (op_append x b) = op_extend x [a; b] s.
Proof. exact r113_append_append. Qed.
Print Assumptions furb113_sound.

(* FURB131  del x[:]  and  x[:] = []  ->  x.clear() *)
Theorem furb131_del_sound : forall x s, op_del_all x s = op_clear x s.
Proof. exact r131_del. Qed.
Print Assumptions furb131_del_sound.
Theorem furb131_assign_sound : forall x s, op_assign_all x [] s = op_clear x s.
Proof. exact r131_assign. Qed.
Print Assumptions furb131_assign_sound.

(* FURB132  if v in s: s.remove(v) -> s.discard(v) *)
Theorem furb132_sound : forall x v s, contents x s <> None -> lhs_132 x v s = op_set_discard x v s.
Proof. exact r132_remove_discard. Qed.
Print Assumptions furb132_sound.

(* FURB142  loops of add / discard -> update / difference_update *)
Theorem furb142_add_sound : forall x vs s, contents x s <> None -> for_each vs (op_set_add x) s = op_set_update x vs s.
Proof. exact r142_add_update. Qed.
Print Assumptions furb142_add_sound.
Theorem furb142_discard_sound : forall x vs s, contents x s <> None -> for_each vs (op_set_discard x) s = op_set_difference_update x vs s.
Proof. exact r142_discard_difference. Qed.
Print Assumptions furb142_discard_sound.

(* FURB148  enumerate with one half unused *)
Theorem furb148_index_only_sound : forall l, map fst (enumerate_from 0 l) = zrange 0 (List.length l).
Proof. exact r148_index_only. Qed.
Print Assumptions furb148_index_only_sound.
Theorem furb148_value_only_sound : forall l, map snd (enumerate_from 0 l) = l.
Proof. exact r148_value_only. Qed.
Print Assumptions furb148_value_only_sound.

(* FURB186 / FURB187: right for the rebound name, wrong for any other name of the same list *)
Theorem furb186_same_for_the_name : forall x s, option_map (contents x) (op_rebind_sorted x s) = option_map (contents x) (op_sort x s).
Proof. exact r186_same_for_the_name. Qed.
Print Assumptions furb186_same_for_the_name.
Theorem furb186_unsound_when_aliased : option_map (contents "other") (op_rebind_sorted "l" aliased) <> option_map (contents "other") (op_sort "l" aliased).
Proof. exact r186_refuted_alias. Qed.
Print Assumptions furb186_unsound_when_aliased.
Theorem furb187_same_for_the_name : forall x s, option_map (contents x) (op_rebind_reversed x s) = option_map (contents x) (op_reverse x s).
Proof. exact r187_same_for_the_name. Qed.
Print Assumptions furb187_same_for_the_name.
Theorem furb187_unsound_when_aliased : option_map (contents "other") (op_rebind_reversed "l" aliased) <> option_map (contents "other") (op_reverse "l" aliased).
Proof. exact r187_refuted_alias. Qed.
Print Assumptions furb187_unsound_when_aliased.
