(* C01 — FURB146: the translated check() (GenLib146.v, regenerated from refurb/checks on every run) is the specification of C01LibSpec.v *)
From Coq Require Import ZArith.
From Lib Require Import Base PyAst Equiv Stringify PyMatch.
From P Require Import C01LibSpec GenLib146.
Open Scope list_scope.
Open Scope string_scope.

Theorem check_146_is_spec : forall type_is node, map render (check_146 type_is node) = spec_146 type_is node.
Proof.
  intros type_is node. by_callee node.
  assert (G : forall f, map render (check_146 type_is (ECall (EName "" f) [(k, nm, arg)])) = spec_146 type_is (ECall (EName "" f) [(k, nm, arg)])).
  { intro f. unfold check_146, spec_146, one_argument, advise. cbn [ref_fullname]. cbv zeta.
    generalize (normalize_os_path f) as s. intro s.
    on_key s "os.path.isabs"; [types_then_compute type_is arg|].
    on_key s "os.path.isdir"; [types_then_compute type_is arg|].
    on_key s "os.path.isfile"; [types_then_compute type_is arg|].
    on_key s "os.path.islink"; [types_then_compute type_is arg|].
    cbn [lookup_str existsb]. rewrite E, E0, E1, E2. reflexivity. }
  destruct callee; try reflexivity; apply G.
Qed.

Print Assumptions check_146_is_spec.
