(* C01 — the check functions themselves (GenMatch.v: check() of FURB110, 114, 136, 171 translated from
   refurb/checks on every run) tied to behaviour: whatever tree one of them reports, and whatever the operands
   are (any sub-expressions, evaluated by Lib/PySyn.v over every assignment of values to names and literals),
   the reported tree and the replacement its message proposes evaluate alike.  The sameness guard the checks
   use is the translated is_equivalent (GenEquiv.v) with its soundness theorem (C06). *)
From Coq Require Import QArith.
From Lib Require Import Base PyAst PyEval PyRules Equiv Stringify PyMatch PySyn.
From P Require Import GenEquiv C06Proofs GenMatch.
Open Scope list_scope.
Open Scope string_scope.

Definition pos (e : expr) : argkind * option string * expr := (ARG_POS, None, e).
Definition call1 (f : string) (a : expr) : expr := ECall (EName f ("builtins." ++ f)) [pos a].
Definition call2 (f : string) (a b : expr) : expr := ECall (EName f ("builtins." ++ f)) [pos a; pos b].

(* ------------------------------------------------------------------ FURB110  x if x else y -> x or y *)
Definition msg_110 (x y : expr) : template :=
  [PLit "Replace `"; POperand x "or"; PLit " if "; POperand x "or"; PLit " else "; POperand y "or";
   PLit "` with `"; POperand x "or"; PLit " or "; POperand y "or"; PLit "`"].

(* what FURB110 reports, and with which message *)
Theorem check_110_reports : forall e t, In t (check_110 e) ->
  exists c x y, e = ECond c x y /\ is_equiv x c = true /\ t = msg_110 x y.
Proof.
  intros e t H. destruct e; try contradiction. cbn in H.
  destruct (is_equiv e2 e1) eqn:E; [|contradiction].
  destruct H as [<-|[]]. now exists e1, e2, e3.
Qed.
Print Assumptions check_110_reports.

Section Behaviour.
  Variable lit : string -> option obj.
  Variable rho : string -> option obj.
  Notation eval := (eval lit rho).

  (* ... and the replacement the message names behaves like the reported expression, for every operand *)
  Theorem check_110_sound : forall e t, In t (check_110 e) ->
    exists c x y, e = ECond c x y /\ t = msg_110 x y /\
      (guard x = true -> guard c = true -> eval e = eval (EOp "or" x y)).
  Proof.
    intros e t H. destruct (check_110_reports e t H) as (c & x & y & -> & E & ->).
    exists c, x, y. repeat split. intros Gx Gc.
    pose proof (is_equiv_sound_all x c Gx Gc E) as S.
    rewrite eval_cond, eval_or, (eval_syn lit rho c x (eq_sym S)).
    destruct (eval x) as [v|]; [|reflexivity]. destruct (py_truthy (val v)); reflexivity.
  Qed.

  (* ---------------------------------------------------------------- FURB114  not not x -> bool(x) *)
  Theorem check_114_sound : forall e t, In t (check_114 e) ->
    exists x, e = EUnary "not" (EUnary "not" x) /\ t = [PLit "Replace `not not x` with `bool(x)`"] /\
      eval e = eval (call1 "bool" x).
  Proof.
    intros e t H. destruct e; try contradiction. cbn in H.
    repeat match goal with
    | H : In _ (match ?s with EmptyString => _ | String _ _ => _ end) |- _ => destruct s; try contradiction
    | H : In _ (match ?a with Ascii _ _ _ _ _ _ _ _ => _ end) |- _ => destruct a
    | H : In _ (if ?b then _ else _) |- _ => destruct b; try contradiction
    | H : In _ (match ?x with EUnary _ _ => _ | _ => _ end) |- _ => destruct x; try contradiction
    end.
    destruct H as [<-|[]]. eexists. repeat split.
    unfold call1. rewrite !eval_not, eval_bool. destruct (PySyn.eval lit rho e) as [v|]; [|reflexivity].
    cbn [option_map]. f_equal. unfold py_not, py_bool, fresh. cbn [val py_truthy]. now rewrite negb_involutive.
  Qed.

  (* ---------------------------------------------------------------- FURB171  x in (y,) -> x == y *)
  Definition new_op (op : string) : string := if String.eqb op "in" then "==" else "!=".
  Definition msg_171 (e lhs item : expr) (op : string) : template :=
    [PLit "Replace `"; PExpr e; PLit "` with `"; POperand lhs (new_op op); PLit " "; PLit (new_op op); PLit " ";
     POperand item (new_op op); PLit "`"].

  Theorem check_171_reports : forall e t, In t (check_171 e) ->
    exists (negated : bool) (k : nat) lhs item,
      e = ECmp [if negated then "not in" else "in"] [lhs; display1 k item] /\
      t = msg_171 e lhs item (if negated then "not in" else "in").
  Proof.
    intros e t H. destruct e; try contradiction. cbn in H.
    destruct ops as [|op [|]]; try contradiction.
    all: repeat match goal with
    | H : In _ (match ?s with EmptyString => _ | String _ _ => _ end) |- _ => destruct s; try contradiction
    | H : In _ (match ?a with Ascii _ _ _ _ _ _ _ _ => _ end) |- _ => destruct a
    | H : In _ (if ?b then _ else _) |- _ => destruct b; try contradiction
    end.
    all: try contradiction.
    all: destruct operands as [|lhs [|d [|]]]; try contradiction.
    all: destruct d; try contradiction; cbn in H.
    all: match goal with H : In _ (if Nat.eqb (List.length ?l) 1 then _ else _) |- _ => destruct l as [|item [|]]; try contradiction end.
    all: cbn in H; destruct H as [<-|[]].
    all: first [ exists false, 0%nat, lhs, item; split; reflexivity | exists false, 1%nat, lhs, item; split; reflexivity
               | exists false, 2%nat, lhs, item; split; reflexivity | exists true, 0%nat, lhs, item; split; reflexivity
               | exists true, 1%nat, lhs, item; split; reflexivity | exists true, 2%nat, lhs, item; split; reflexivity ].
  Qed.

  Theorem check_171_sound : forall e t, In t (check_171 e) ->
    exists (negated : bool) k lhs item,
      e = ECmp [if negated then "not in" else "in"] [lhs; display1 k item] /\
      ((forall vx vy, eval lhs = Some vx -> eval item = Some vy -> same_object_same_value vx vy /\ reflexive (val vx)) ->
       oval (eval e) = oval (eval (ECmp [if negated then "!=" else "=="] [lhs; item]))).
  Proof.
    intros e t H. destruct (check_171_reports e t H) as (negated & k & lhs & item & -> & _).
    exists negated, k, lhs, item. split; [reflexivity|]. intros G.
    rewrite eval_in_display1.
    destruct (is_display item) eqn:D.
    - (* the single item is itself a display: neither side is in the fragment *)
      rewrite (eval_display_none lit rho item D).
      rewrite (eval_cmp_display_right lit rho _ lhs item D) by (destruct negated; reflexivity).
      destruct (eval lhs); reflexivity.
    - rewrite (eval_cmp lit rho _ lhs item D).
      destruct (eval lhs) as [vx|] eqn:Ex; [|reflexivity]. destruct (eval item) as [vy|] eqn:Ey; [|reflexivity].
      destruct (G vx vy eq_refl eq_refl) as [W R].
      unfold py_in. cbn [existsb]. rewrite (in_elem_guarded vx vy W R), orb_false_r.
      destruct negated; reflexivity.
  Qed.

  (* ---------------------------------------------------------------- FURB136  x if x < y else y -> min(x, y), and the seven other shapes *)
  Definition func_table : list (string * string) := [("<", "min"); ("<=", "min"); (">", "max"); (">=", "max")].
  Definition flip (oper : string) : string :=
    match lookup_str [("<", ">"); ("<=", ">="); (">", "<"); (">=", "<=")] oper with Some v => v | None => oper end.
  Definition msg_136a (oper f : string) : template :=
    [PLit "Replace `x if x "; PLit oper; PLit " y else y` with `"; PLit f; PLit "(x, y)`"].
  Definition msg_136b (oper f : string) : template :=
    [PLit "Replace `x if y "; PLit oper; PLit " x else y` with `"; PLit f; PLit "(y, x)`"].

  Opaque lookup_str.
  Theorem check_136_reports : forall e t, In t (check_136 e) ->
    exists oper l r x y, e = ECond (ECmp [oper] [l; r]) x y /\
      ((is_equiv x l = true /\ is_equiv r y = true /\ exists f, lookup_str func_table oper = Some f /\ t = msg_136a oper f) \/
       (is_equiv x r = true /\ is_equiv l y = true /\ exists f, lookup_str func_table (flip oper) = Some f /\ t = msg_136b oper f)).
  Proof.
    intros e t H. destruct e; try contradiction. cbn in H.
    destruct e1; try contradiction.
    destruct ops as [|oper [|]]; try contradiction.
    destruct operands as [|l [|r [|]]]; try contradiction.
    apply in_app_or in H. exists oper, l, r, e2, e3. split; [reflexivity|].
    destruct H as [H|H].
    - left. destruct (is_equiv e2 l) eqn:E1; [|contradiction]. destruct (is_equiv r e3) eqn:E2; [|contradiction]. cbn [andb] in H.
      fold func_table in H. destruct (lookup_str func_table oper) as [f|] eqn:L; [|contradiction].
      destruct H as [<-|[]]. repeat split. exists f. split; reflexivity.
    - right. destruct (is_equiv e2 r) eqn:E1; [|contradiction]. destruct (is_equiv l e3) eqn:E2; [|contradiction]. cbn [andb] in H.
      fold (flip oper) in H. fold func_table in H. destruct (lookup_str func_table (flip oper)) as [f|] eqn:L; [|contradiction].
      destruct H as [<-|[]]. repeat split. exists f. split; reflexivity.
  Qed.
  Transparent lookup_str.

  (* integer operands: what the comparisons, min and max compute *)
  Lemma int_eq a b : py_eq (VInt a) (VInt b) = Z.eqb a b.
  Proof.
    cbn [py_eq ext_of num_of ext_eqb]. unfold Qeq_bool, inject_Z. cbn [Qnum Qden]. rewrite !Z.mul_1_r.
    unfold Zeq_bool. destruct (Z.compare_spec a b), (Z.eqb_spec a b); try reflexivity; lia.
  Qed.

  Lemma cmp_int op (x y : obj) a b : val x = VInt a -> val y = VInt b ->
    cmp op x y =
    if String.eqb op "<" then Some (vbool (Z.ltb a b)) else if String.eqb op ">" then Some (vbool (Z.ltb b a))
    else if String.eqb op "<=" then Some (vbool (Z.leb a b)) else if String.eqb op ">=" then Some (vbool (Z.leb b a))
    else cmp op x y.
  Proof.
    intros Hx Hy. unfold cmp. rewrite Hx, Hy, !int_lt, int_eq.
    destruct (String.eqb op "<"); [reflexivity|]. destruct (String.eqb op ">"); [reflexivity|].
    destruct (String.eqb op "<=").
    { cbn. do 2 f_equal. destruct (Z.ltb_spec a b), (Z.eqb_spec a b), (Z.leb_spec a b); try reflexivity; lia. }
    destruct (String.eqb op ">="); [|reflexivity].
    cbn. do 2 f_equal. destruct (Z.ltb_spec b a), (Z.eqb_spec a b), (Z.leb_spec b a); try reflexivity; lia.
  Qed.

  Lemma lookup_func oper f : lookup_str func_table oper = Some f ->
    (oper = "<" /\ f = "min") \/ (oper = "<=" /\ f = "min") \/ (oper = ">" /\ f = "max") \/ (oper = ">=" /\ f = "max").
  Proof.
    unfold func_table. cbn [lookup_str].
    destruct (String.eqb_spec oper "<"); [intros [= <-]; auto|].
    destruct (String.eqb_spec oper "<="); [intros [= <-]; auto|].
    destruct (String.eqb_spec oper ">"); [intros [= <-]; auto|].
    destruct (String.eqb_spec oper ">="); [intros [= <-]; auto 6|]. discriminate.
  Qed.

  Theorem check_136_sound : forall e t, In t (check_136 e) ->
    exists oper l r x y, e = ECond (ECmp [oper] [l; r]) x y /\
      (guard x = true -> guard y = true -> guard l = true -> guard r = true ->
       forall vx vy a b, eval x = Some vx -> eval y = Some vy -> val vx = VInt a -> val vy = VInt b ->
       (exists f, t = msg_136a oper f /\ oval (eval e) = oval (eval (call2 f x y))) \/
       (exists f, t = msg_136b oper f /\ oval (eval e) = oval (eval (call2 f y x)))).
  Proof.
    intros e t H. destruct (check_136_reports e t H) as (oper & l & r & x & y & -> & Hc).
    exists oper, l, r, x, y. split; [reflexivity|]. intros Gx Gy Gl Gr vx vy a b Ex Ey Hx Hy.
    destruct Hc as [(E1 & E2 & f & L & ->)|(E1 & E2 & f & L & ->)]; [left|right]; exists f; (split; [reflexivity|]).
    - pose proof (is_equiv_sound_all x l Gx Gl E1) as S1. pose proof (is_equiv_sound_all r y Gr Gy E2) as S2.
      assert (El : eval l = Some vx) by (now rewrite <- (eval_syn lit rho x l S1)).
      assert (Er : eval r = Some vy) by (now rewrite (eval_syn lit rho r y S2)).
      assert (Dr : is_display r = false).
      { destruct (is_display r) eqn:D; [|reflexivity]. rewrite (eval_display_none lit rho r D) in Er. discriminate. }
      rewrite eval_cond, (eval_cmp lit rho oper l r Dr), El, Er, Ex, Ey, (cmp_int oper vx vy a b Hx Hy).
      unfold call2, pos. rewrite eval_call2, Ex, Ey. unfold py_min2, py_max2. rewrite Hx, Hy, !int_lt.
      destruct (lookup_func oper f L) as [[-> ->]|[[-> ->]|[[-> ->]|[-> ->]]]]; (repeat match goal with |- context [String.eqb ?s ?t] => let v := eval vm_compute in (String.eqb s t) in change (String.eqb s t) with v end); cbn [vbool fresh val py_truthy];
        repeat match goal with |- context [Z.ltb ?p ?q] => destruct (Z.ltb_spec p q) | |- context [Z.leb ?p ?q] => destruct (Z.leb_spec p q) end;
        cbn [oval option_map]; try reflexivity; try lia; rewrite ?Hx, ?Hy; f_equal; f_equal; lia.
    - pose proof (is_equiv_sound_all x r Gx Gr E1) as S1. pose proof (is_equiv_sound_all l y Gl Gy E2) as S2.
      assert (Er : eval r = Some vx) by (now rewrite <- (eval_syn lit rho x r S1)).
      assert (El : eval l = Some vy) by (now rewrite (eval_syn lit rho l y S2)).
      assert (Dr : is_display r = false).
      { destruct (is_display r) eqn:D; [|reflexivity]. rewrite (eval_display_none lit rho r D) in Er. discriminate. }
      rewrite eval_cond, (eval_cmp lit rho oper l r Dr), El, Er, Ex, Ey, (cmp_int oper vy vx b a Hy Hx).
      unfold call2, pos. rewrite eval_call2, Ex, Ey. unfold py_min2, py_max2. rewrite Hx, Hy, !int_lt.
      assert (Lf : (oper = ">" /\ f = "min") \/ (oper = ">=" /\ f = "min") \/ (oper = "<" /\ f = "max") \/ (oper = "<=" /\ f = "max")).
      { destruct (lookup_func _ f L) as [[F ->]|[[F ->]|[[F ->]|[F ->]]]]; unfold flip in F; cbn [lookup_str] in F;
          repeat match type of F with context [String.eqb oper ?k] => destruct (String.eqb_spec oper k); [subst oper|] end;
          try discriminate; try congruence; auto 6. }
      destruct Lf as [[-> ->]|[[-> ->]|[[-> ->]|[-> ->]]]]; (repeat match goal with |- context [String.eqb ?s ?t] => let v := eval vm_compute in (String.eqb s t) in change (String.eqb s t) with v end); cbn [vbool fresh val py_truthy];
        repeat match goal with |- context [Z.ltb ?p ?q] => destruct (Z.ltb_spec p q) | |- context [Z.leb ?p ?q] => destruct (Z.leb_spec p q) end;
        cbn [oval option_map]; try reflexivity; try lia; rewrite ?Hx, ?Hy; f_equal; f_equal; lia.
  Qed.
End Behaviour.
Print Assumptions check_110_sound.
Print Assumptions check_114_sound.
Print Assumptions check_171_reports.
Print Assumptions check_171_sound.
Print Assumptions check_136_reports.
Print Assumptions check_136_sound.
