(* C01 — the check functions themselves (GenMatch.v: check() of FURB110, 114, 136, 171 translated from
   refurb/checks on every run) tied to behaviour: whatever tree one of them reports, and whatever the operands
   are (any sub-expressions, evaluated by Lib/PySyn.v over every assignment of values to names and literals),
   the reported tree and the replacement its message proposes evaluate alike.  The sameness guard the checks
   use is the translated is_equivalent (GenEquiv.v) with its soundness theorem (C06). *)
From Coq Require Import QArith.
From Lib Require Import Base PyAst PyEval PyRules Equiv Stringify PyMatch PySyn.
From P Require Import GenEquiv C06Proofs GenMatch.
Open Scope list_scope.
Open Scope string_scope.

(* decide comparisons of closed strings *)
Ltac seqb := repeat match goal with |- context [String.eqb ?s ?t] =>
  let v := eval vm_compute in (String.eqb s t) in
  lazymatch v with true => change (String.eqb s t) with true | false => change (String.eqb s t) with false end end.

Definition pos (e : expr) : argkind * option string * expr := (ARG_POS, None, e).
Definition call1 (f : string) (a : expr) : expr := ECall (EName f ("builtins." ++ f)) [pos a].
Definition call2 (f : string) (a b : expr) : expr := ECall (EName f ("builtins." ++ f)) [pos a; pos b].

(* ------------------------------------------------------------------ FURB110  x if x else y -> x or y *)
Definition msg_110 (x y : expr) : template :=
  [PLit "Replace `"; POperand x "or"; PLit " if "; POperand x "or"; PLit " else "; POperand y "or";
   PLit "` with `"; POperand x "or"; PLit " or "; POperand y "or"; PLit "`"].

(* what FURB110 reports, and with which message *)
Theorem check_110_reports : forall e t, In t (check_110 e) ->
  exists c x y, e = ECond c x y /\ is_equiv x c = true /\ t = msg_110 x y.
Proof.
  intros e t H. destruct e; try contradiction. cbn in H.
  destruct (is_equiv e2 e1) eqn:E; [|contradiction].
  destruct H as [<-|[]]. now exists e1, e2, e3.
Qed.
Print Assumptions check_110_reports.

Section Behaviour.
  Variable lit : string -> option obj.
  Variable rho : string -> option obj.
  Notation eval := (eval lit rho).

  (* ... and the replacement the message names behaves like the reported expression, for every operand *)
  Theorem check_110_sound : forall e t, In t (check_110 e) ->
    exists c x y, e = ECond c x y /\ t = msg_110 x y /\
      (guard x = true -> guard c = true -> eval e = eval (EOp "or" x y)).
  Proof.
    intros e t H. destruct (check_110_reports e t H) as (c & x & y & -> & E & ->).
    exists c, x, y. repeat split. intros Gx Gc.
    pose proof (is_equiv_sound_all x c Gx Gc E) as S.
    rewrite eval_cond, eval_or, (eval_syn lit rho c x (eq_sym S)).
    destruct (eval x) as [v|]; [|reflexivity]. destruct (py_truthy (val v)); reflexivity.
  Qed.

  (* ---------------------------------------------------------------- FURB114  not not x -> bool(x) *)
  Theorem check_114_sound : forall e t, In t (check_114 e) ->
    exists x, e = EUnary "not" (EUnary "not" x) /\ t = [PLit "Replace `not not x` with `bool(x)`"] /\
      eval e = eval (call1 "bool" x).
  Proof.
    intros e t H. destruct e; try contradiction. cbn in H.
    repeat match goal with
    | H : In _ (match ?s with EmptyString => _ | String _ _ => _ end) |- _ => destruct s; try contradiction
    | H : In _ (match ?a with Ascii _ _ _ _ _ _ _ _ => _ end) |- _ => destruct a
    | H : In _ (if ?b then _ else _) |- _ => destruct b; try contradiction
    | H : In _ (match ?x with EUnary _ _ => _ | _ => _ end) |- _ => destruct x; try contradiction
    end.
    destruct H as [<-|[]]. eexists. repeat split.
    unfold call1. rewrite !eval_not, eval_bool. destruct (PySyn.eval lit rho e) as [v|]; [|reflexivity].
    cbn [option_map]. f_equal. unfold py_not, py_bool, fresh. cbn [val py_truthy]. now rewrite negb_involutive.
  Qed.

  (* ---------------------------------------------------------------- FURB171  x in (y,) -> x == y *)
  Definition new_op (op : string) : string := if String.eqb op "in" then "==" else "!=".
  Definition msg_171 (e lhs item : expr) (op : string) : template :=
    [PLit "Replace `"; PExpr e; PLit "` with `"; POperand lhs (new_op op); PLit " "; PLit (new_op op); PLit " ";
     POperand item (new_op op); PLit "`"].

  Theorem check_171_reports : forall e t, In t (check_171 e) ->
    exists (negated : bool) (k : nat) lhs item,
      e = ECmp [if negated then "not in" else "in"] [lhs; display1 k item] /\
      t = msg_171 e lhs item (if negated then "not in" else "in").
  Proof.
    intros e t H. destruct e; try contradiction. cbn in H.
    destruct ops as [|op [|]]; try contradiction.
    all: repeat match goal with
    | H : In _ (match ?s with EmptyString => _ | String _ _ => _ end) |- _ => destruct s; try contradiction
    | H : In _ (match ?a with Ascii _ _ _ _ _ _ _ _ => _ end) |- _ => destruct a
    | H : In _ (if ?b then _ else _) |- _ => destruct b; try contradiction
    end.
    all: try contradiction.
    all: destruct operands as [|lhs [|d [|]]]; try contradiction.
    all: destruct d; try contradiction; cbn in H.
    all: match goal with H : In _ (if Nat.eqb (List.length ?l) 1 then _ else _) |- _ => destruct l as [|item [|]]; try contradiction end.
    all: cbn in H; destruct H as [<-|[]].
    all: first [ exists false, 0%nat, lhs, item; split; reflexivity | exists false, 1%nat, lhs, item; split; reflexivity
               | exists false, 2%nat, lhs, item; split; reflexivity | exists true, 0%nat, lhs, item; split; reflexivity
               | exists true, 1%nat, lhs, item; split; reflexivity | exists true, 2%nat, lhs, item; split; reflexivity ].
  Qed.

  Theorem check_171_sound : forall e t, In t (check_171 e) ->
    exists (negated : bool) k lhs item,
      e = ECmp [if negated then "not in" else "in"] [lhs; display1 k item] /\
      ((forall vx vy, eval lhs = Some vx -> eval item = Some vy -> same_object_same_value vx vy /\ reflexive (val vx)) ->
       oval (eval e) = oval (eval (ECmp [if negated then "!=" else "=="] [lhs; item]))).
  Proof.
    intros e t H. destruct (check_171_reports e t H) as (negated & k & lhs & item & -> & _).
    exists negated, k, lhs, item. split; [reflexivity|]. intros G.
    rewrite eval_in_display1.
    destruct (is_display item) eqn:D.
    - (* the single item is itself a display: neither side is in the fragment *)
      rewrite (eval_display_none lit rho item D).
      rewrite (eval_cmp_display_right lit rho _ lhs item D) by (destruct negated; reflexivity).
      destruct (eval lhs); reflexivity.
    - rewrite (eval_cmp lit rho _ lhs item D).
      destruct (eval lhs) as [vx|] eqn:Ex; [|reflexivity]. destruct (eval item) as [vy|] eqn:Ey; [|reflexivity].
      destruct (G vx vy eq_refl eq_refl) as [W R].
      unfold py_in. cbn [existsb]. rewrite (in_elem_guarded vx vy W R), orb_false_r.
      destruct negated; reflexivity.
  Qed.

  (* ---------------------------------------------------------------- FURB136  x if x < y else y -> min(x, y), and the seven other shapes *)
  Definition func_table : list (string * string) := [("<", "min"); ("<=", "min"); (">", "max"); (">=", "max")].
  Definition flip (oper : string) : string :=
    match lookup_str [("<", ">"); ("<=", ">="); (">", "<"); (">=", "<=")] oper with Some v => v | None => oper end.
  Definition msg_136a (oper f : string) : template :=
    [PLit "Replace `x if x "; PLit oper; PLit " y else y` with `"; PLit f; PLit "(x, y)`"].
  Definition msg_136b (oper f : string) : template :=
    [PLit "Replace `x if y "; PLit oper; PLit " x else y` with `"; PLit f; PLit "(y, x)`"].

  Opaque lookup_str.
  Theorem check_136_reports : forall e t, In t (check_136 e) ->
    exists oper l r x y, e = ECond (ECmp [oper] [l; r]) x y /\
      ((is_equiv x l = true /\ is_equiv r y = true /\ exists f, lookup_str func_table oper = Some f /\ t = msg_136a oper f) \/
       (is_equiv x r = true /\ is_equiv l y = true /\ exists f, lookup_str func_table (flip oper) = Some f /\ t = msg_136b oper f)).
  Proof.
    intros e t H. destruct e; try contradiction. cbn in H.
    destruct e1; try contradiction.
    destruct ops as [|oper [|]]; try contradiction.
    destruct operands as [|l [|r [|]]]; try contradiction.
    apply in_app_or in H. exists oper, l, r, e2, e3. split; [reflexivity|].
    destruct H as [H|H].
    - left. destruct (is_equiv e2 l) eqn:E1; [|contradiction]. destruct (is_equiv r e3) eqn:E2; [|contradiction]. cbn [andb] in H.
      fold func_table in H. destruct (lookup_str func_table oper) as [f|] eqn:L; [|contradiction].
      destruct H as [<-|[]]. repeat split. exists f. split; reflexivity.
    - right. destruct (is_equiv e2 r) eqn:E1; [|contradiction]. destruct (is_equiv l e3) eqn:E2; [|contradiction]. cbn [andb] in H.
      fold (flip oper) in H. fold func_table in H. destruct (lookup_str func_table (flip oper)) as [f|] eqn:L; [|contradiction].
      destruct H as [<-|[]]. repeat split. exists f. split; reflexivity.
  Qed.
  Transparent lookup_str.

  (* integer operands: what the comparisons, min and max compute *)
  Lemma int_eq a b : py_eq (VInt a) (VInt b) = Z.eqb a b.
  Proof.
    cbn [py_eq ext_of num_of ext_eqb]. unfold Qeq_bool, inject_Z. cbn [Qnum Qden]. rewrite !Z.mul_1_r.
    unfold Zeq_bool. destruct (Z.compare_spec a b), (Z.eqb_spec a b); try reflexivity; lia.
  Qed.

  Lemma cmp_int op (x y : obj) a b : val x = VInt a -> val y = VInt b ->
    cmp op x y =
    if String.eqb op "<" then Some (vbool (Z.ltb a b)) else if String.eqb op ">" then Some (vbool (Z.ltb b a))
    else if String.eqb op "<=" then Some (vbool (Z.leb a b)) else if String.eqb op ">=" then Some (vbool (Z.leb b a))
    else cmp op x y.
  Proof.
    intros Hx Hy. unfold cmp. rewrite Hx, Hy, !int_lt, int_eq.
    destruct (String.eqb op "<"); [reflexivity|]. destruct (String.eqb op ">"); [reflexivity|].
    destruct (String.eqb op "<=").
    { cbn. do 2 f_equal. destruct (Z.ltb_spec a b), (Z.eqb_spec a b), (Z.leb_spec a b); try reflexivity; lia. }
    destruct (String.eqb op ">="); [|reflexivity].
    cbn. do 2 f_equal. destruct (Z.ltb_spec b a), (Z.eqb_spec a b), (Z.leb_spec b a); try reflexivity; lia.
  Qed.

  Lemma lookup_func oper f : lookup_str func_table oper = Some f ->
    (oper = "<" /\ f = "min") \/ (oper = "<=" /\ f = "min") \/ (oper = ">" /\ f = "max") \/ (oper = ">=" /\ f = "max").
  Proof.
    unfold func_table. cbn [lookup_str].
    destruct (String.eqb_spec oper "<"); [intros [= <-]; auto|].
    destruct (String.eqb_spec oper "<="); [intros [= <-]; auto|].
    destruct (String.eqb_spec oper ">"); [intros [= <-]; auto|].
    destruct (String.eqb_spec oper ">="); [intros [= <-]; auto 6|]. discriminate.
  Qed.

  Theorem check_136_sound : forall e t, In t (check_136 e) ->
    exists oper l r x y, e = ECond (ECmp [oper] [l; r]) x y /\
      (guard x = true -> guard y = true -> guard l = true -> guard r = true ->
       forall vx vy a b, eval x = Some vx -> eval y = Some vy -> val vx = VInt a -> val vy = VInt b ->
       (exists f, t = msg_136a oper f /\ oval (eval e) = oval (eval (call2 f x y))) \/
       (exists f, t = msg_136b oper f /\ oval (eval e) = oval (eval (call2 f y x)))).
  Proof.
    intros e t H. destruct (check_136_reports e t H) as (oper & l & r & x & y & -> & Hc).
    exists oper, l, r, x, y. split; [reflexivity|]. intros Gx Gy Gl Gr vx vy a b Ex Ey Hx Hy.
    destruct Hc as [(E1 & E2 & f & L & ->)|(E1 & E2 & f & L & ->)]; [left|right]; exists f; (split; [reflexivity|]).
    - pose proof (is_equiv_sound_all x l Gx Gl E1) as S1. pose proof (is_equiv_sound_all r y Gr Gy E2) as S2.
      assert (El : eval l = Some vx) by (now rewrite <- (eval_syn lit rho x l S1)).
      assert (Er : eval r = Some vy) by (now rewrite (eval_syn lit rho r y S2)).
      assert (Dr : is_display r = false).
      { destruct (is_display r) eqn:D; [|reflexivity]. rewrite (eval_display_none lit rho r D) in Er. discriminate. }
      rewrite eval_cond, (eval_cmp lit rho oper l r Dr), El, Er, Ex, Ey, (cmp_int oper vx vy a b Hx Hy).
      unfold call2, pos. rewrite eval_call2, Ex, Ey. unfold py_min2, py_max2. rewrite Hx, Hy, !int_lt.
      destruct (lookup_func oper f L) as [[-> ->]|[[-> ->]|[[-> ->]|[-> ->]]]]; (repeat match goal with |- context [String.eqb ?s ?t] => let v := eval vm_compute in (String.eqb s t) in change (String.eqb s t) with v end); cbn [vbool fresh val py_truthy];
        repeat match goal with |- context [Z.ltb ?p ?q] => destruct (Z.ltb_spec p q) | |- context [Z.leb ?p ?q] => destruct (Z.leb_spec p q) end;
        cbn [oval option_map]; try reflexivity; try lia; rewrite ?Hx, ?Hy; f_equal; f_equal; lia.
    - pose proof (is_equiv_sound_all x r Gx Gr E1) as S1. pose proof (is_equiv_sound_all l y Gl Gy E2) as S2.
      assert (Er : eval r = Some vx) by (now rewrite <- (eval_syn lit rho x r S1)).
      assert (El : eval l = Some vy) by (now rewrite (eval_syn lit rho l y S2)).
      assert (Dr : is_display r = false).
      { destruct (is_display r) eqn:D; [|reflexivity]. rewrite (eval_display_none lit rho r D) in Er. discriminate. }
      rewrite eval_cond, (eval_cmp lit rho oper l r Dr), El, Er, Ex, Ey, (cmp_int oper vy vx b a Hy Hx).
      unfold call2, pos. rewrite eval_call2, Ex, Ey. unfold py_min2, py_max2. rewrite Hx, Hy, !int_lt.
      assert (Lf : (oper = ">" /\ f = "min") \/ (oper = ">=" /\ f = "min") \/ (oper = "<" /\ f = "max") \/ (oper = "<=" /\ f = "max")).
      { destruct (lookup_func _ f L) as [[F ->]|[[F ->]|[[F ->]|[F ->]]]]; unfold flip in F; cbn [lookup_str] in F;
          repeat match type of F with context [String.eqb oper ?k] => destruct (String.eqb_spec oper k); [subst oper|] end;
          try discriminate; try congruence; auto 6. }
      destruct Lf as [[-> ->]|[[-> ->]|[[-> ->]|[-> ->]]]]; (repeat match goal with |- context [String.eqb ?s ?t] => let v := eval vm_compute in (String.eqb s t) in change (String.eqb s t) with v end); cbn [vbool fresh val py_truthy];
        repeat match goal with |- context [Z.ltb ?p ?q] => destruct (Z.ltb_spec p q) | |- context [Z.leb ?p ?q] => destruct (Z.leb_spec p q) end;
        cbn [oval option_map]; try reflexivity; try lia; rewrite ?Hx, ?Hy; f_equal; f_equal; lia.
  Qed.

  (* ---------------------------------------------------------------- FURB149  b is True -> b,  b == False -> not b, ... (16 shapes) *)
  Variable type_is : expr -> string -> bool.

  Definition truthy_149 (oper name : string) : bool :=
    let value := String.eqb name "True" in
    if existsb (String.eqb oper) ["is not"; "!="] then negb value else value.
  Definition msg_149_lit_left (oper : string) (lt x : expr) : template :=
    ([PLit "Replace `"; PLit (name_of lt); PLit " "; PLit oper; PLit " "; POperand x oper; PLit "` with `"] ++
     (if truthy_149 oper (name_of lt) then [POperand x oper] else [PLit "not "; POperand x oper]) ++ [PLit "`"])%list.
  Definition msg_149_lit_right (oper : string) (x lt : expr) : template :=
    ([PLit "Replace `"; POperand x oper; PLit " "; PLit oper; PLit " "; PLit (name_of lt); PLit "` with `"] ++
     (if truthy_149 oper (name_of lt) then [POperand x oper] else [PLit "not "; POperand x oper]) ++ [PLit "`"])%list.
  Definition repl_149 (oper : string) (lt x : expr) : expr :=
    if truthy_149 oper (name_of lt) then x else EUnary "not" x.
  Definition oper_149 (oper : string) : Prop := oper = "is" \/ oper = "is not" \/ oper = "==" \/ oper = "!=".

  Theorem check_149_reports : forall e t, In t (check_149 type_is e) ->
    exists oper lhs rhs, e = ECmp [oper] [lhs; rhs] /\ oper_149 oper /\
      ((is_bool_literal lhs = true /\ type_is rhs "bool" = true /\ t = msg_149_lit_left oper lhs rhs) \/
       (type_is lhs "bool" = true /\ is_bool_literal rhs = true /\ t = msg_149_lit_right oper lhs rhs)).
  Proof.
    intros e t H. destruct e; try contradiction. cbn in H.
    destruct ops as [|oper [|]]; try contradiction.
    all: repeat match goal with
    | H : In _ (match ?s with EmptyString => _ | String _ _ => _ end) |- _ => destruct s; try contradiction
    | H : In _ (match ?a with Ascii _ _ _ _ _ _ _ _ => _ end) |- _ => destruct a
    | H : In _ (if ?b then _ else _) |- _ => is_var b; destruct b; try contradiction
    end.
    all: try contradiction.
    all: destruct operands as [|lhs [|rhs [|]]]; try contradiction.
    all: match goal with |- exists oper l r, ECmp [?o] _ = _ /\ _ => exists o, lhs, rhs end; (split; [reflexivity|]);
      (split; [unfold oper_149; auto|]).
    all: destruct (is_bool_literal lhs && type_is rhs "bool") eqn:C1;
      [ apply andb_true_iff in C1 as [A B]; left; destruct H as [<-|[]]; repeat split; assumption
      | destruct (type_is lhs "bool" && is_bool_literal rhs) eqn:C2; [|contradiction];
        apply andb_true_iff in C2 as [A B]; right; destruct H as [<-|[]]; repeat split; assumption ].
  Qed.

  (* what the type guard promises, and what the names True / False denote *)
  Hypothesis type_is_bool : forall x v, type_is x "bool" = true -> eval x = Some v -> exists b, val v = VBool b.
  Hypothesis true_is_true : rho "True" = Some otrue.
  Hypothesis false_is_false : rho "False" = Some ofalse.

  Lemma bool_literal_value lt : guard lt = true -> is_bool_literal lt = true ->
    exists b, eval lt = Some (fresh (VBool b)) /\ String.eqb (name_of lt) "True" = b.
  Proof.
    intros G L. destruct lt; try discriminate. unfold is_bool_literal, is_true_literal, is_false_literal in L.
    cbn [guard] in G. unfold name_resolved in G. apply andb_true_iff in G as [_ G].
    apply orb_true_iff in L as [L|L]; apply String.eqb_eq in L; subst fullname; vm_compute in G;
      apply String.eqb_eq in G; subst name; [exists true|exists false]; split; try reflexivity; unfold PySyn.eval; cbn; assumption.
  Qed.

  Theorem check_149_sound : forall e t, In t (check_149 type_is e) ->
    exists oper lhs rhs, e = ECmp [oper] [lhs; rhs] /\
      (guard lhs = true -> guard rhs = true ->
       (is_bool_literal lhs = true /\ t = msg_149_lit_left oper lhs rhs /\ oval (eval e) = oval (eval (repl_149 oper lhs rhs))) \/
       (is_bool_literal rhs = true /\ t = msg_149_lit_right oper lhs rhs /\ oval (eval e) = oval (eval (repl_149 oper rhs lhs)))).
  Proof.
    intros e t H. destruct (check_149_reports e t H) as (oper & lhs & rhs & -> & Ho & Hc).
    exists oper, lhs, rhs. split; [reflexivity|]. intros Gl Gr.
    destruct Hc as [(L & T & ->)|(T & L & ->)]; [left|right]; (split; [assumption|]); (split; [reflexivity|]).
    - destruct (bool_literal_value lhs Gl L) as (bl & El & En).
      destruct (is_display rhs) eqn:D.
      + assert (eval (ECmp [oper] [lhs; rhs]) = None).
        { destruct Ho as [-> | [-> | [-> | ->]]]; apply eval_cmp_display_right; auto. }
        rewrite H0. unfold repl_149. destruct (truthy_149 oper (name_of lhs)); [now rewrite (eval_display_none lit rho rhs D)|].
        now rewrite eval_not, (eval_display_none lit rho rhs D).
      + rewrite (eval_cmp lit rho oper lhs rhs D), El. unfold repl_149, truthy_149. rewrite En.
        destruct (eval rhs) as [v|] eqn:Er; [|destruct Ho as [-> | [-> | [-> | ->]]]; cbn [existsb]; seqb; destruct bl; cbn [orb negb]; cbn iota; rewrite ?eval_not, ?Er; reflexivity].
        destruct (type_is_bool rhs v T Er) as (b & Hb).
        destruct Ho as [-> | [-> | [-> | ->]]]; destruct bl, b; cbn [existsb]; seqb; cbn [orb negb andb]; cbn iota; rewrite ?eval_not, ?Er;
          unfold cmp, py_is, py_not, vbool, fresh; seqb; cbn [val oval option_map]; rewrite ?Hb; cbn; rewrite ?Hb; reflexivity.
    - destruct (bool_literal_value rhs Gr L) as (bl & Er & En).
      assert (D : is_display rhs = false) by (destruct rhs; try discriminate; reflexivity).
      rewrite (eval_cmp lit rho oper lhs rhs D), Er. unfold repl_149, truthy_149. rewrite En.
      destruct (eval lhs) as [v|] eqn:El; [|destruct Ho as [-> | [-> | [-> | ->]]]; cbn [existsb]; seqb; destruct bl; cbn [orb negb]; cbn iota; rewrite ?eval_not, ?El; reflexivity].
      destruct (type_is_bool lhs v T El) as (b & Hb).
      destruct Ho as [-> | [-> | [-> | ->]]]; destruct bl, b; cbn [existsb]; seqb; cbn [orb negb andb]; cbn iota; rewrite ?eval_not, ?El;
        unfold cmp, py_is, py_not, vbool, fresh; seqb; cbn [val oval option_map]; rewrite ?Hb; cbn; rewrite ?Hb; reflexivity.
  Qed.
End Behaviour.
Print Assumptions check_149_reports.
Print Assumptions check_149_sound.
Print Assumptions check_110_sound.
Print Assumptions check_114_sound.
Print Assumptions check_171_reports.
Print Assumptions check_171_sound.
Print Assumptions check_136_reports.
Print Assumptions check_136_sound.
