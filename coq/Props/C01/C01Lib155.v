(* C01 — FURB155: the translated check() (GenLib155.v, regenerated from refurb/checks on every run) is the specification of C01LibSpec.v *)
From Coq Require Import ZArith.
From Lib Require Import Base PyAst Equiv Stringify PyMatch.
From P Require Import C01LibSpec GenLib155.
Open Scope list_scope.
Open Scope string_scope.

Theorem check_155_is_spec : forall type_is node, map render (check_155 type_is node) = spec_155 type_is node.
Proof.
  intros type_is node. by_callee node.
  assert (G : forall f, map render (check_155 type_is (ECall (EName "" f) [(k, nm, arg)])) = spec_155 type_is (ECall (EName "" f) [(k, nm, arg)])).
  { intro f. unfold check_155, spec_155, one_argument, advise. cbn [ref_fullname]. cbv zeta.
    generalize (normalize_os_path f) as s. intro s.
    on_key s "os.stat"; [types_then_compute type_is arg|].
    on_key s "os.path.getsize"; [types_then_compute type_is arg|].
    on_key s "os.path.getatime"; [types_then_compute type_is arg|].
    on_key s "os.path.getmtime"; [types_then_compute type_is arg|].
    on_key s "os.path.getctime"; [types_then_compute type_is arg|].
    cbn [lookup_str existsb]. rewrite E, E0, E1, E2, E3. reflexivity. }
  destruct callee; try reflexivity; apply G.
Qed.

Theorem stat_advice_names_the_matching_field : forall type_is node m, In m (map render (check_155 type_is node)) ->
  exists callee arg f member, one_argument node = Some (callee, arg) /\ f = normalize_os_path (ref_fullname callee) /\
    In (f, member) [("os.stat", "stat()"); ("os.path.getsize", "stat().st_size"); ("os.path.getatime", "stat().st_atime");
                    ("os.path.getmtime", "stat().st_mtime"); ("os.path.getctime", "stat().st_ctime")] /\
    (m = "Replace `" ++ f ++ "(x)` with `x." ++ member ++ "`" \/ m = "Replace `" ++ f ++ "(x)` with `Path(x)." ++ member ++ "`").
Proof.
  intros type_is node m H. rewrite check_155_is_spec in H. unfold spec_155 in H.
  destruct (one_argument node) as [[callee arg]|] eqn:O; [|contradiction].
  exists callee, arg, (normalize_os_path (ref_fullname callee)).
  cbv zeta in H. unfold advise in H. revert H. generalize (normalize_os_path (ref_fullname callee)) as s. intros s H.
  on_key s "os.stat"; [exists "stat()"|on_key s "os.path.getsize"; [exists "stat().st_size"|on_key s "os.path.getatime"; [exists "stat().st_atime"|
    on_key s "os.path.getmtime"; [exists "stat().st_mtime"|on_key s "os.path.getctime"; [exists "stat().st_ctime"|]]]]];
  try (repeat split; [cbn; tauto|];
       cbn [existsb lookup_str] in H; rewrite ?String.eqb_refl in H; cbn in H;
       destruct (type_is arg "pathlib.Path"); [destruct H as [<-|[]]; now left|];
       destruct (type_is arg "str" || type_is arg "bytes"); [destruct H as [<-|[]]; now right|contradiction]).
  cbn [existsb] in H. rewrite E, E0, E1, E2, E3 in H. contradiction.
Qed.

Print Assumptions check_155_is_spec.
Print Assumptions stat_advice_names_the_matching_field.
