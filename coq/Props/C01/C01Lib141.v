(* C01 — FURB141: the translated check() (GenLib141.v, regenerated from refurb/checks on every run) is the specification of C01LibSpec.v *)
From Coq Require Import ZArith.
From Lib Require Import Base PyAst Equiv Stringify PyMatch.
From P Require Import C01LibSpec GenLib141.
Open Scope list_scope.
Open Scope string_scope.

Theorem check_141_is_spec : forall type_is node, map render (check_141 type_is node) = spec_141 type_is node.
Proof.
  intros type_is node. by_callee node.
  assert (G : forall f, map render (check_141 type_is (ECall (EName "" f) [(k, nm, arg)])) = spec_141 type_is (ECall (EName "" f) [(k, nm, arg)])).
  { intro f. unfold check_141, spec_141, one_argument, advise. cbn [ref_fullname]. cbv zeta.
    generalize (normalize_os_path f) as s. intro s.
    on_key s "os.path.exists"; [types_then_compute type_is arg|].
    cbn [existsb]. rewrite E. reflexivity. }
  destruct callee; try reflexivity; apply G.
Qed.

Print Assumptions check_141_is_spec.
