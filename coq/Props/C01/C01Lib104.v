(* C01 — FURB104: the translated check() (GenLib104.v, regenerated from refurb/checks on every run) is the specification of C01LibSpec.v *)
From Coq Require Import ZArith.
From Lib Require Import Base PyAst Equiv Stringify PyMatch.
From P Require Import C01LibSpec GenLib104.
Open Scope list_scope.
Open Scope string_scope.

Theorem check_104_is_spec : forall node, map render (check_104 node) = spec_104 node.
Proof.
  intros node. destruct node as [| | | | | | | | | | | callee args | | | | | | | | | | |]; try reflexivity.
  destruct callee; try reflexivity; unfold check_104, spec_104; cbn [ref_fullname existsb]; cbv zeta;
    rewrite Bool.orb_false_r;
    match goal with |- context [String.eqb ?f "os.getcwd" || _] => destruct (String.eqb f "os.getcwd" || String.eqb f "os.getcwdb") end; reflexivity.
Qed.

Print Assumptions check_104_is_spec.
