(* C05 — type-conditioned diagnostics agree with the types mypy infers.
   GenTypes.v holds SIMPLE_TYPES and FURB123's cast table as regenerated from the source;
   Lib/Types.v the model of _is_same_type (its shape is checked by the translator). *)
From Lib Require Import Base Types.
From P Require Import GenTypes.
Open Scope list_scope.

(* whatever mypy type object the operand resolves to: a builtin class is matched only by an
   instance (or the class object) of exactly that class, or by a tuple type for `tuple` *)
Theorem same_type_exact : forall t T, same_type1 simple_types t (EType T) = true ->
  match base t with
  | Some (TInst f) | Some (TInfo f) => simple simple_types f = Some (EType T)
  | Some TTuple => T = "tuple"%string
  | _ => False
  end.
Proof. exact (same_type_exact_all simple_types). Qed.
Print Assumptions same_type_exact.

(* an operand refurb cannot resolve never qualifies for a cast diagnostic *)
Theorem unresolved_never_qualifies : forall T, same_type_opt simple_types None (EType T) = false.
Proof. reflexivity. Qed.
Print Assumptions unresolved_never_qualifies.

(* SIMPLE_TYPES maps each builtin fullname to its own class: no two names share a class and
   `builtins.X` goes to X *)
Theorem simple_types_faithful :
  forallb (fun kv => match snd kv with
                     | EType n => String.eqb (fst kv) ("builtins." ++ n)
                     | EAny => String.eqb (fst kv) "Any" | ENone => String.eqb (fst kv) "None" | EName _ => false end) simple_types = true.
Proof. vm_compute. reflexivity. Qed.
Print Assumptions simple_types_faithful.

(* every cast FURB123 knows is guarded by the class of the same name *)
Theorem furb123_casts_are_builtin_classes :
  forallb (fun kv => match snd kv with
                     | EType n :: _ => String.eqb (fst kv) ("builtins." ++ n)
                     | _ => false end) cast_table = true.
Proof. vm_compute. reflexivity. Qed.
Print Assumptions furb123_casts_are_builtin_classes.

Example any_union_other_never_int :
  same_type1 simple_types TAny (EType "int") = false /\ same_type1 simple_types (TOther "UnionType") (EType "int") = false
  /\ same_type1 simple_types (TInst "builtins.bool") (EType "int") = false
  /\ same_type1 simple_types (TAlias (Some (TInst "builtins.int"))) (EType "int") = true.
Proof. vm_compute. repeat split; reflexivity. Qed.
Print Assumptions any_union_other_never_int.
