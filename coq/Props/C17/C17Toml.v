(* C17 — docs/configs/default.toml "emulates the default settings": its disable list
   is exactly the checks that are off by default. *)
From Lib Require Import Base Catalogue.
From P Require Import GenCatalogue.

Definition default_off : list string :=
  map (fun c => code_str (code_key c))
      (isort by_code_str (filter (fun c => negb (c_enabled c)) catalogue)).

Theorem default_toml_matches : isort str_leb default_toml_disable = default_off.
Proof. apply (list_eqb_spec String.eqb String.eqb_eq). vm_compute. reflexivity. Qed.
Print Assumptions default_toml_matches.
