(* C17 — catalogue coherence.  Statements over the catalogue regenerated from
   /repo (GenCatalogue.v).  Finite domain: every fact is decided by vm_compute over
   the whole catalogue and lifted by a generic lemma; nothing is sampled. *)
From Lib Require Import Base Catalogue.
From P Require Import GenCatalogue.

Lemma codes_unique_b : nodupb key_eqb (map code_key catalogue) = true.
Proof. vm_compute. reflexivity. Qed.

Theorem codes_unique : NoDup (map code_key catalogue).
Proof. exact (nodupb_NoDup _ key_eqb key_eqb_spec _ codes_unique_b). Qed.
Print Assumptions codes_unique.

Lemma names_unique_b : nodupb opt_str_eqb (map c_name catalogue) = true.
Proof. vm_compute. reflexivity. Qed.

Theorem names_unique : NoDup (map c_name catalogue).
Proof. exact (nodupb_NoDup _ opt_str_eqb opt_str_eqb_spec _ names_unique_b). Qed.
Print Assumptions names_unique.

Definition well_named (c : chk) : bool :=
  match c_name c with Some n => is_kebab n | None => false end.

Theorem names_kebab : forall c, In c catalogue -> well_named c = true.
Proof. apply forallb_In. vm_compute. reflexivity. Qed.
Print Assumptions names_kebab.

Theorem all_documented : forall c, In c catalogue -> c_has_doc c = true.
Proof. apply forallb_In. vm_compute. reflexivity. Qed.
Print Assumptions all_documented.

(* --explain CODE prints that check's own name, categories and documentation *)
Theorem explain_finds_own :
  forall c, In c catalogue -> explain catalogue (code_key c) = render_explain c.
Proof. exact (explain_finds_own_generic catalogue codes_unique). Qed.
Print Assumptions explain_finds_own.

Definition cats_documented (c : chk) : bool :=
  forallb (fun x => memb String.eqb x documented_categories) (c_cats c).

Theorem categories_documented :
  forall c, In c catalogue -> forall x, In x (c_cats c) -> In x documented_categories.
Proof.
  intros c Hc x Hx.
  assert (Hall : forall d, In d catalogue -> cats_documented d = true).
  { apply forallb_In. vm_compute. reflexivity. }
  pose proof (Hall c Hc) as H.
  unfold cats_documented in H. rewrite forallb_forall in H.
  apply (memb_In _ String.eqb String.eqb_eq). auto.
Qed.
Print Assumptions categories_documented.

(* docs/checks.md has exactly one section per check, in code order, stating the
   check's own code, name, categories and documentation *)
Definition expected_md : list md_entry :=
  map (fun cb => md_of (fst cb) (snd cb))
      (isort (fun a b => by_code_str (fst a) (fst b)) (combine catalogue md_bodies_expected)).

Theorem docs_md_matches : checks_md = expected_md.
Proof.
  apply (list_eqb_spec md_entry_eqb).
  - intros [a b c] [a' b' c']; unfold md_entry_eqb; simpl.
    rewrite !andb_true_iff, !String.eqb_eq. split; [intros [[-> ->] ->]|intros E; inversion E]; auto.
  - vm_compute. reflexivity.
Qed.
Print Assumptions docs_md_matches.

Theorem md_bodies_cover : List.length md_bodies_expected = List.length catalogue.
Proof. vm_compute. reflexivity. Qed.
Print Assumptions md_bodies_cover.
