(* C11 — what outlives one run inside a process.  A file of its own, so that a new piece of process state breaks this statement and
   leaves the statements about the report order (C11.v) checked. *)
From Lib Require Import Base.
From P Require Import GenSortKey.
Open Scope list_scope.

(* What outlives one run inside a process (regenerated from the sources): one memoised function, which
   run_refurb empties before every build, and the five node-id sets of FURB140/179/183/185/188, which nothing
   empties -- the recorded finding history:stale-node-ids.  Any other piece of process state, or the memo no
   longer being emptied, breaks this statement. *)
Theorem process_state_inventory :
  process_state = [ "container:refurb/checks/itertools/use_chain_from_iterable.py:ignore:never-cleared";
                    "container:refurb/checks/itertools/use_starmap.py:ignore:never-cleared";
                    "container:refurb/checks/readability/no_copy_with_merge.py:ignored_nodes:never-cleared";
                    "container:refurb/checks/readability/use_str_func.py:ignore:never-cleared";
                    "container:refurb/checks/string/remove_prefix_or_suffix.py:ignored_nodes:never-cleared";
                    "memo:refurb/main.py:get_source_lines:cleared-each-run" ]%string.
Proof. reflexivity. Qed.
Print Assumptions process_state_inventory.
