(* C11 — output is deterministic: independent of file order, grouping (and, for a fresh
   process, of history).  GenSortKey.v is regenerated from refurb/main.py:sort_errors. *)
From Lib Require Import Base Sort.
From P Require Import GenSortKey.
Open Scope list_scope.

Record diag := { d_file : string; d_line : N; d_col : N; d_prefix : string; d_code : N }.

Definition field (d : diag) (name : string) : fld :=
  if String.eqb name "filename" then FS (d_file d) else if String.eqb name "line" then FN (d_line d)
  else if String.eqb name "column" then FN (d_col d) else if String.eqb name "prefix" then FS (d_prefix d)
  else FN (d_code d).

Definition key (names : list string) (d : diag) : list fld := map (field d) names.
Definition report (names : list string) (ds : list diag) : list (list fld) := isort key_leb (map (key names) ds).

(* the documented order: by file name first (default), or by error code first *)
Theorem key_order_documented :
  key_filename = ["filename"; "line"; "column"; "prefix"; "code"]%string /\
  key_error = ["prefix"; "code"; "filename"; "line"; "column"]%string.
Proof. split; reflexivity. Qed.
Print Assumptions key_order_documented.

(* permuting the file arguments (hence the order in which diagnostics are produced)
   does not change the report, for any number of files and diagnostics *)
Theorem sort_perm_invariant : forall names (ds1 ds2 : list diag),
  NoDup (map (key names) ds1) -> Permutation ds1 ds2 -> report names ds1 = report names ds2.
Proof.
  intros names ds1 ds2 ND P. unfold report.
  apply (sort_perm_invariant_all _ key_leb key_leb_total key_leb_trans key_leb_antisym); [exact ND|].
  now apply Permutation_map.
Qed.
Print Assumptions sort_perm_invariant.

(* checking groups of files separately and merging, or all together: same report *)
Theorem partition_invariant : forall names (groups : list (list diag)),
  NoDup (map (key names) (List.concat groups)) ->
  report names (List.concat groups) = isort key_leb (List.concat (map (report names) groups)).
Proof.
  intros names groups ND. unfold report.
  rewrite concat_map in *.
  rewrite (partition_invariant_all _ key_leb key_leb_total key_leb_trans key_leb_antisym _ ND).
  now rewrite map_map.
Qed.
Print Assumptions partition_invariant.

(* the report is sorted by the documented key and contains exactly the diagnostics *)
Theorem sorted_output : forall names (ds : list diag),
  sorted _ key_leb (report names ds) /\ Permutation (map (key names) ds) (report names ds).
Proof. intros. apply (sorted_output_all _ key_leb key_leb_total key_leb_trans). Qed.
Print Assumptions sorted_output.

(* equal keys name the same file, position and code: the key leaves nothing to chance *)
Theorem key_total_on_distinct : forall d1 d2,
  key key_filename d1 = key key_filename d2 -> d1 = d2.
Proof.
  intros [f1 l1 c1 p1 k1] [f2 l2 c2 p2 k2] H. vm_compute in H. now inversion H.
Qed.
Print Assumptions key_total_on_distinct.

Example report_example :
  report key_filename [ {| d_file := "b.py"; d_line := 1; d_col := 0; d_prefix := "FURB"; d_code := 123 |};
                        {| d_file := "a.py"; d_line := 9; d_col := 4; d_prefix := "FURB"; d_code := 105 |};
                        {| d_file := "a.py"; d_line := 2; d_col := 4; d_prefix := "FURB"; d_code := 123 |} ]
  = [ [FS "a.py"; FN 2; FN 4; FS "FURB"; FN 123]; [FS "a.py"; FN 9; FN 4; FS "FURB"; FN 105];
      [FS "b.py"; FN 1; FN 0; FS "FURB"; FN 123] ]%string.
Proof. vm_compute. reflexivity. Qed.
Print Assumptions report_example.
