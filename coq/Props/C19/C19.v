(* C19 — `refurb gen` output.  GenGenTpl.v is regenerated from refurb/gen.py (template,
   format arguments), refurb/visitor/mapping.py (the node table with each class's module)
   and the check catalogue (existing codes). *)
From Lib Require Import Base GenTpl.
From P Require Import GenGenTpl.
Open Scope list_scope.

Definition module_of (n : string) : string :=
  match lookup String.eqb fst n nodes with Some (_, m) => m | None => "" end.

(* every selected node type is imported from its own module, in exactly one line, once;
   no module is imported twice; nothing else is imported -- selections of any size *)
Theorem imports_cover : forall sel n, NoDup sel -> In n sel ->
  (exists ns, In (module_of n, ns) (import_lines module_of sel) /\ count_occ string_dec ns n = 1) /\
  (forall m ns, In (m, ns) (import_lines module_of sel) -> In n ns -> m = module_of n) /\
  NoDup (map fst (import_lines module_of sel)).
Proof. exact (imports_cover_all module_of). Qed.
Print Assumptions imports_cover.

Theorem imports_are_selection : forall sel m ns n, In (m, ns) (import_lines module_of sel) -> In n ns -> In n sel.
Proof. exact (imports_only_selection module_of). Qed.
Print Assumptions imports_are_selection.

(* the new check gets a code no existing check of that prefix has; 100 for a new prefix *)
Theorem next_id_free : forall prefix,
  ~ In (prefix, next_id existing_codes prefix) existing_codes /\
  ((forall c, ~ In (prefix, c) existing_codes) -> next_id existing_codes prefix = 100%N).
Proof. intros. apply next_id_free_all. Qed.
Print Assumptions next_id_free.

(* the node table offers exactly the classes a check may subscribe to, each once *)
Theorem node_names_unique : NoDup (map fst nodes).
Proof. apply (nodupb_NoDup _ String.eqb String.eqb_eq). vm_compute. reflexivity. Qed.
Print Assumptions node_names_unique.

Example next_furb : next_id existing_codes "FURB" = 193%N /\ next_id existing_codes "XYZ" = 100%N.
Proof. vm_compute. split; reflexivity. Qed.
Print Assumptions next_furb.
